import random, time
from permuta import *
from permuta.enumeration_strategies import find_strategies
random.seed(13)
ops=[lambda x:x, lambda x:x.reverse(), lambda x:x.complement(), lambda x:x.inverse(), lambda x:x.rotate(1), lambda x:x.rotate(2), lambda x:x.rotate(3), lambda x:x.flip_antidiagonal()]
needed=[Perm((1,2,0,3)),Perm((2,0,1,3)),Perm((1,3,0,2)),Perm((2,0,3,1)),Perm((1,0,2,3)),Perm((1,0,3,2))]
t0=time.time(); bad=0; dist={}
for trial in range(300):
    B=set(random.sample(needed, random.randint(0,4)))
    for _ in range(random.randint(0,3)):
        l=random.randint(2,5); p=random.sample(range(l),l)
        if random.random()<0.6: p=[0]+[v+1 for v in p]
        B.add(Perm(p))
    if not B: continue
    B=[f(b) for b in B] if (f:=random.choice(ops)) else B
    base=sorted(type(s).__name__ for s in find_strategies(B))
    fast=sorted(type(s).__name__ for s in find_strategies(B, False))
    assert fast==[x for x in base if x!='FinitelyManySimplesStrategy'],(B,base,fast)
    dist[tuple(base)]=dist.get(tuple(base),0)+1
    for f in ops:
        B2=[f(b) for b in B]; random.shuffle(B2); B2=B2+B2[:1]
        got=sorted(type(s).__name__ for s in find_strategies(B2))
        if got!=base: print("SYM FAIL",B,B2,base,got); bad+=1
print(bad, time.time()-t0)
for k,v in sorted(dist.items(), key=lambda kv:-kv[1])[:12]: print(v,k)

#!/usr/bin/env python3
"""Sensitivity driver: apply one textual mutation to a scratch copy of the repository
(outside /repo and /verif), run a check's quick tier against it via PV_REPO, report
whether the check noticed, remove the copy.

usage: mut.py <Cxx> <relative file> <old text> <new text> [--tier quick] [--nth K] [--keep]
       mut.py <Cxx> --patch file.diff
Never touches /repo.  Evidence/replay files written by the mutated run are discarded
(the run uses a private PV_ROOT copy of the framework? no - it runs with PV_EVIDENCE_OFF).
"""
import argparse
import os
import shutil
import subprocess
import sys
import tempfile
import time

ROOT = os.path.dirname(os.path.dirname(os.path.abspath(__file__)))


def main():
    ap = argparse.ArgumentParser()
    ap.add_argument("prop")
    ap.add_argument("file", nargs="?")
    ap.add_argument("old", nargs="?")
    ap.add_argument("new", nargs="?")
    ap.add_argument("--tier", default="quick")
    ap.add_argument("--nth", type=int, default=None, help="replace only the nth (1-based) occurrence")
    ap.add_argument("--patch")
    ap.add_argument("--script", help="python script run with the scratch copy as argv[1]")
    ap.add_argument("--seed", default="1")
    args = ap.parse_args()
    scratch = tempfile.mkdtemp(prefix="pvmut-", dir="/tmp")
    try:
        subprocess.check_call(["rsync", "-a", "--exclude", ".git", "--exclude", "__pycache__", "/repo/", scratch + "/"])
        if args.patch:
            subprocess.check_call(["patch", "-p1", "-s", "-d", scratch, "-i", os.path.abspath(args.patch)])
        elif args.script:
            subprocess.check_call([sys.executable, os.path.abspath(args.script), scratch])
        else:
            path = os.path.join(scratch, args.file)
            src = open(path).read()
            cnt = src.count(args.old)
            if cnt == 0:
                print("MUTATION-ERROR: old text not found")
                return 3
            if args.nth is None:
                if cnt != 1:
                    print(f"MUTATION-ERROR: old text occurs {cnt} times; use --nth")
                    return 3
                src = src.replace(args.old, args.new)
            else:
                parts = src.split(args.old)
                k = args.nth
                src = args.old.join(parts[:k]) + args.new + args.old.join(parts[k:])
            open(path, "w").write(src)
        evdir = tempfile.mkdtemp(prefix="pvmut-ev-", dir="/tmp")
        env = dict(os.environ, PV_REPO=scratch, VERIF_SEED=args.seed, PV_OUT=evdir)
        t0 = time.time()
        res = subprocess.run([os.path.join(ROOT, "check"), args.prop, "--tier", args.tier], env=env, capture_output=True, text=True)
        dt = time.time() - t0
        viol = [ln for ln in res.stdout.splitlines() if ln.startswith("VIOLATION") or ln.startswith("  check=")]
        verdict = {0: "MISSED", 1: "CAUGHT", 2: "HARNESS-ERROR"}.get(res.returncode, f"exit {res.returncode}")
        print(f"{verdict} {args.prop} exit={res.returncode} {dt:.1f}s")
        for ln in viol[:8]:
            print("   ", ln[:300])
        if res.returncode not in (0, 1):
            print(res.stderr[-2000:])
        shutil.rmtree(evdir, ignore_errors=True)
        return 0
    finally:
        shutil.rmtree(scratch, ignore_errors=True)


if __name__ == "__main__":
    sys.exit(main())

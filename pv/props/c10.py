"""C10 - algebraic and structural operations return valid permutations obeying their laws."""
import itertools

from hypothesis import strategies as st

from permuta import Perm

from .. import engine, gen
from .. import oracle as ref
from ..engine import BAD, OK

META = {
    "level": "exploration",
    "rule": (
        "exhaustive: every permutation up to the tier's bound with ALL argument values (insert index 0..n+1 and "
        "value 0..n, every removal index/value, every shift amount in [-9, 9]), every ordered pair of permutations "
        "of length <= 4 for composition and sums; generated: permutations up to length 13, triples for "
        "associativity, component lists for inflate including None and empty components. Oracle: point "
        "configurations + standardisation, definitional interval / run scanners, duality children <-> coveredby. "
        "Every result is first checked to be a bijection of the documented length. Non-trivial: length >= 3 "
        "(per-permutation), or an argument at an end position / an empty component. Distinct = case content."
    ),
    "assumptions": [
        "is_strongly_simple is asserted (light sweep) as 'simple, and every one-point deletion is simple' - the code's reading and the usual definition of strong simplicity; the docstring's 'any of' is read as 'every'",
    ],
}


def selftest():
    if ref.direct_sum((0,), (1, 0), (2, 1, 0)) != (0, 2, 1, 5, 4, 3) or ref.skew_sum((0,), (0, 1), (2, 1, 0)) != (5, 3, 4, 2, 1, 0):
        raise engine.HarnessError("oracle sums docstring examples failed")
    if ref.proper_intervals((5, 3, 0, 1, 2, 4, 7, 6)) != [(2, 2), (3, 2), (6, 2), (2, 3), (1, 4), (1, 5), (0, 6)]:
        raise engine.HarnessError("oracle intervals self-test failed")


def _valid(x, n):
    return isinstance(x, Perm) and len(x) == n and ref.is_perm(tuple(x))


def _runs(p, mode):
    """Maximal runs of consecutive positions with constant step +1 (asc), -1 (desc) or either (mono)."""
    n = len(p)
    res = []
    i = 0
    while i < n:
        j = i
        d = None
        while j + 1 < n:
            step = p[j + 1] - p[j]
            ok = step == 1 if mode == "asc" else step == -1 if mode == "desc" else step in (1, -1)
            if not ok or (d is not None and step != d):
                break
            d = step
            j += 1
        res.append((i, j))
        i = j + 1
    return res


def _interval_checks(P, p, n):
    """intervals, blocks and monotone runs against the definitional scanners"""
    # ---- intervals
    intervals = ref.proper_intervals(p)
    blocks = P.block_decomposition()
    want_blocks = [[] for _ in range(n)]
    for start, length in intervals:
        want_blocks[length].append(start)
    if [sorted(b) for b in blocks] != want_blocks or len(blocks) != n:
        return BAD("block_decomposition", {"got": blocks, "want": want_blocks})
    if P.all_intervals() != blocks or P.decomposition() != blocks:
        return BAD("block_alias", {})
    if P.is_simple() != (not intervals):
        return BAD("is_simple", {"got": P.is_simple()})
    mb = P.maximum_block()
    if intervals:
        ml = max(length for _, length in intervals)
        want_mb = (ml, min(s for s, length in intervals if length == ml))
    else:
        want_mb = (0, 0)
    if tuple(mb) != want_mb or P.maximal_interval() != mb or P.simple_location() != mb:
        return BAD("maximum_block", {"got": mb, "want": want_mb})
    want_pats = {ref.std(p[s : s + length]) for s, length in intervals}
    got_pats = P.block_decomposition_as_pattern()
    if {tuple(x) for x in got_pats} != want_pats or len(got_pats) != len(want_pats):
        return BAD("block_decomposition_as_pattern", {})
    # ---- monotone blocks and contractions
    for mode, meth, contract in (
        ("mono", P.monotone_block_decomposition, P.contract_bonds),
        ("asc", P.monotone_block_decomposition_ascending, P.contract_inc_bonds),
        ("desc", P.monotone_block_decomposition_descending, P.contract_dec_bonds),
    ):
        runs = _runs(p, mode)
        if list(meth(True)) != runs or list(meth(with_ones=True)) != runs:
            return BAD("monotone_blocks_" + mode + "_with_ones", {"got": list(meth(True)), "want": runs})
        long_runs = [r for r in runs if r[1] > r[0]]
        if list(meth()) != long_runs or list(meth(False)) != long_runs:
            return BAD("monotone_blocks_" + mode, {"got": list(meth()), "want": long_runs})
        c = contract()
        wantc = ref.std(tuple(p[s] for s, _ in runs))
        if not _valid(c, len(runs)) or tuple(c) != wantc:
            return BAD("contract_" + mode, {"got": list(c), "want": list(wantc)})
    if P.monotone_quotient() != P.contract_bonds() or list(P.all_monotone_intervals()) != list(P.monotone_block_decomposition()):
        return BAD("monotone_quotient", {})
    return None


def check_perm(case):
    p = tuple(case)
    n = len(p)
    P = Perm(p)
    # ---- insert / remove
    for i in range(n + 2):
        for v in range(n + 1):
            q = P.insert(i, v)
            pos = min(i, n)
            want = tuple([w + 1 if w >= v else w for w in p[:pos]] + [v] + [w + 1 if w >= v else w for w in p[pos:]])
            if not _valid(q, n + 1) or tuple(q) != want:
                return BAD("insert", {"i": i, "v": v, "got": list(q), "want": list(want)})
            if q.remove(pos) != P or q.remove_element(v) != P:
                return BAD("insert_remove_inverse", {"i": i, "v": v})
    if tuple(P.insert()) != p + (n,) or tuple(P.insert(0)) != (n,) + p or tuple(P.insert(new_element=0)) != tuple(w + 1 for w in p) + (0,):
        return BAD("insert_defaults", {})
    for i in range(n):
        q = P.remove(i)
        if not _valid(q, n - 1) or tuple(q) != ref.delete_point(p, i):
            return BAD("remove", {"i": i, "got": list(q)})
        q = P.remove_element(p[i])
        if not _valid(q, n - 1) or tuple(q) != ref.delete_point(p, i):
            return BAD("remove_element", {"v": p[i], "got": list(q)})
        # positions counted from the right end, as for any Python sequence (the index is used as
        # self[index]); keyword form
        q = P.remove(i - n)
        if not _valid(q, n - 1) or tuple(q) != ref.delete_point(p, i):
            return BAD("remove_negative_index", {"i": i - n, "got": list(q)})
        if P.remove(index=i) != P.remove(i) or P.remove_element(selected=p[i]) != P.remove_element(p[i]):
            return BAD("remove_keyword_form", {"i": i})
    if n:
        imax = p.index(n - 1)
        if tuple(P.remove()) != ref.delete_point(p, imax) or tuple(P.remove_element()) != ref.delete_point(p, imax):
            return BAD("remove_default", {})
    else:
        if P.remove_element() != P:
            return BAD("remove_default_empty", {})
    # ---- shifts: cyclic group actions
    for k in range(-9, 10):
        r = P.shift_right(k)
        if n:
            want = [0] * n
            for i, v in enumerate(p):
                want[(i + k) % n] = v
            want = tuple(want)
        else:
            want = ()
        if not _valid(r, n) or tuple(r) != want:
            return BAD("shift_right", {"k": k, "got": list(r), "want": list(want)})
        if P.shift_left(k) != P.shift_right(-k) or P.shift(k) != r or P.cyclic_shift(k) != r or P.cyclic_shift_right(k) != r or P.cyclic_shift_left(-k) != r:
            return BAD("shift_left_alias", {"k": k})
        u = P.shift_up(k)
        wantu = tuple((v + k) % n for v in p) if n else ()
        if not _valid(u, n) or tuple(u) != wantu:
            return BAD("shift_up", {"k": k, "got": list(u), "want": list(wantu)})
        if P.shift_down(k) != P.shift_up(-k):
            return BAD("shift_down", {"k": k})
        for k2 in (-3, 1, 4):
            if P.shift_right(k).shift_right(k2) != P.shift_right(k + k2) or P.shift_up(k).shift_up(k2) != P.shift_up(k + k2):
                return BAD("shift_not_action", {"k": k, "k2": k2})
    # default and keyword forms of the shifts
    if P.shift_right() != P.shift_right(1) or P.shift_left() != P.shift_right(-1) or P.shift_up() != P.shift_up(1) or P.shift_down() != P.shift_up(-1):
        return BAD("shift_default_argument", {})
    if P.shift_right(times=2) != P.shift_right(2) or P.shift_left(times=2) != P.shift_right(-2) or P.shift_up(times=2) != P.shift_up(2) or P.shift_down(times=2) != P.shift_up(-2):
        return BAD("shift_keyword_argument", {})
    big = 10 ** 6 + 1
    if n and (P.shift_right(big) != P.shift_right(big % n) or P.shift_up(-big) != P.shift_up((-big) % n)):
        return BAD("shift_large_argument", {})
    # ---- sum / skew decompositions
    for name, parts, assemble, indec, dec in (
        ("sum", P.sum_decomposition(), ref.direct_sum, ref.is_sum_decomposable, P.is_sum_decomposable()),
        ("skew", P.skew_decomposition(), ref.skew_sum, ref.is_skew_decomposable, P.is_skew_decomposable()),
    ):
        if any(not _valid(c, len(c)) or len(c) == 0 for c in parts):
            return BAD(name + "_decomposition_parts_invalid", {"parts": [list(c) for c in parts]})
        if assemble(*[tuple(c) for c in parts]) != p:
            return BAD(name + "_decomposition_reassembly", {"parts": [list(c) for c in parts]})
        if any(indec(tuple(c)) for c in parts):
            return BAD(name + "_decomposition_part_decomposable", {"parts": [list(c) for c in parts]})
        if dec != indec(p) or dec != (len(parts) > 1):
            return BAD("is_" + name + "_decomposable", {"got": dec})
        lib_assemble = (lambda *cs: cs[0].direct_sum(*cs[1:])) if name == "sum" else (lambda *cs: cs[0].skew_sum(*cs[1:]))
        if parts and lib_assemble(*parts) != P:
            return BAD(name + "_lib_reassembly", {})
    if P.sum_decomposable() != P.is_sum_decomposable() or P.skew_decomposable() != P.is_skew_decomposable():
        return BAD("decomposable_alias", {})
    bad = _interval_checks(P, p, n)
    if bad:
        return bad
    intervals = ref.proper_intervals(p)
    # ---- shadow and covers
    kids = P.children()
    want_kids = {ref.delete_point(p, i) for i in range(n)}
    if len(kids) != len(set(kids)) or {tuple(k) for k in kids} != want_kids or any(not _valid(k, n - 1) for k in kids):
        return BAD("children", {"got": sorted(map(list, kids))})
    if sorted(P.shrink_by_one()) != sorted(kids):
        return BAD("children_alias", {})
    if n <= 5:
        covers = P.coveredby()
        want_cov = {q for q in ref.perms(n + 1) if any(ref.delete_point(q, i) == p for i in range(n + 1))}
        if len(covers) != len(set(covers)) or {tuple(c) for c in covers} != want_cov or any(not _valid(c, n + 1) for c in covers):
            return BAD("coveredby", {"got_size": len(covers), "want_size": len(want_cov)})
        for c in covers:
            if P not in c.children():
                return BAD("cover_child_duality", {"cover": list(c)})
    # ---- misc single-permutation laws
    inv = P.inverse()
    if not _valid(inv, n) or inv.compose(P) != Perm.identity(n) or P.compose(inv) != Perm.identity(n):
        return BAD("inverse_law", {})
    if P.is_involution() != (tuple(inv) == p) or P.is_increasing() != (p == tuple(range(n))) or P.is_decreasing() != (p == tuple(range(n - 1, -1, -1))) or P.is_identity() != P.is_increasing():
        return BAD("simple_predicates", {})
    letters = "abcdefghijklmnopqrstuvwxyz"[:n]
    if P.apply(range(n)) != p or (n <= 26 and P.permute(letters) != tuple(letters[v] for v in p)):
        return BAD("apply", {})
    if any(P(i) != p[i] for i in range(n)):
        return BAD("call", {})
    if P.get_perm() is not P or len(P) != n:
        return BAD("get_perm_len", {})
    return OK(n >= 3, "simple" if not intervals else "not_simple")


def check_tuple(case):
    ps = [tuple(p) for p in case]
    Ps = [Perm(p) for p in ps]
    a, A = ps[0], Ps[0]
    # sums: any lengths
    s = A.direct_sum(*Ps[1:])
    k = A.skew_sum(*Ps[1:])
    tot = sum(len(p) for p in ps)
    if not _valid(s, tot) or tuple(s) != ref.direct_sum(*ps):
        return BAD("direct_sum", {"got": list(s), "want": list(ref.direct_sum(*ps))})
    if not _valid(k, tot) or tuple(k) != ref.skew_sum(*ps):
        return BAD("skew_sum", {"got": list(k), "want": list(ref.skew_sum(*ps))})
    # point-configuration formulation: all of block i left of and below (above) block i+1
    if len(ps) >= 2:
        if (Ps[0] + Ps[1]) != Ps[0].direct_sum(Ps[1]) or (Ps[0] - Ps[1]) != Ps[0].skew_sum(Ps[1]):
            return BAD("sum_operators", {})
        if Ps[0].direct_sum(Ps[1]).direct_sum(*Ps[2:]) != s or Ps[0].skew_sum(Ps[1]).skew_sum(*Ps[2:]) != k:
            return BAD("sum_associativity", {})
    # composition: equal lengths only (documented by the assertion in compose)
    if all(len(p) == len(a) for p in ps):
        n = len(a)
        c = A.compose(*Ps[1:])
        # (p0 . p1 . p2)(i) = p0[p1[p2[i]]]
        want = []
        for i in range(n):
            j = i
            for p in reversed(ps[1:]):
                j = p[j]
            want.append(a[j])
        want = tuple(want)
        if not _valid(c, n) or tuple(c) != want or A.multiply(*Ps[1:]) != c:
            return BAD("compose", {"got": list(c), "want": list(want)})
        if len(ps) >= 2:
            if A * Ps[1] != A.compose(Ps[1]):
                return BAD("mul_operator", {})
            if A.compose(Ps[1]).inverse() != Ps[1].inverse().compose(A.inverse()):
                return BAD("inverse_of_product", {})
        if len(ps) == 3:
            if A.compose(Ps[1]).compose(Ps[2]) != A.compose(Ps[1].compose(Ps[2])) or A.compose(Ps[1], Ps[2]) != A.compose(Ps[1]).compose(Ps[2]):
                return BAD("compose_associativity", {})
        e = Perm.identity(n)
        if A.compose(e) != A or e.compose(A) != A:
            return BAD("compose_identity", {})
        return OK(n >= 3, "compose_and_sums")
    return OK(any(len(p) == 0 for p in ps) or tot >= 4, "sums")


def check_inflate(case):
    p = tuple(case["p"])
    comps = [None if c is None else tuple(c) for c in case["comps"]]
    P = Perm(p)
    got = P.inflate([None if c is None else Perm(c) for c in comps])
    xs, ys = [], []
    for i, c in enumerate(comps):
        block = (0,) if c is None else c
        for j, v in enumerate(block):
            xs.append((i, j))
            ys.append((p[i], v))
    want = ref.std(ys)
    if not _valid(got, len(ys)) or tuple(got) != want:
        return BAD("inflate", {"got": list(got), "want": list(want)})
    if P.inflate(iter([None if c is None else Perm(c) for c in comps])) != got:
        return BAD("inflate_iterator", {})
    # inflating by singletons is the identity; inflating the 1-point perm by c gives c
    if P.inflate([Perm((0,))] * len(p)) != P or P.inflate([None] * len(p)) != P:
        return BAD("inflate_identity", {})
    nt = any(c is None or len(c) == 0 for c in comps) or len(ys) >= 4
    return OK(nt, "inflate_with_empty" if any(c is not None and len(c) == 0 for c in comps) else "inflate")


CHECKS = {"perm": check_perm, "tuple": check_tuple, "inflate": check_inflate}


def shard_perms(acc, shard, nshards, max_n):
    for i, p in enumerate(ref.perms_upto(max_n)):
        if i % nshards == shard:
            acc.record("perm", check_perm, list(p))


def shard_pairs(acc, shard, nshards, max_n):
    ps = list(ref.perms_upto(max_n))
    for i, (a, b) in enumerate(itertools.product(ps, repeat=2)):
        if i % nshards == shard:
            acc.record("tuple", check_tuple, [list(a), list(b)])


@st.composite
def tuple_cases(draw):
    if draw(st.booleans()):
        n = draw(st.integers(0, 8))
        k = draw(st.integers(1, 3))
        return [list(draw(gen.perm_of(n))) for _ in range(k)]
    return [list(p) for p in draw(st.lists(gen.perms(0, 5), min_size=1, max_size=4))]


@st.composite
def inflate_cases(draw):
    p = list(draw(gen.perms(0, 5)))
    comps = []
    for _ in p:
        which = draw(st.integers(0, 5))
        if which == 0:
            comps.append(None)
        elif which == 1:
            comps.append([])
        else:
            comps.append(list(draw(gen.perms(1, 4))))
    return {"p": p, "comps": comps}


def shard_generated(acc, shard, nshards, n_perm, n_tuple, n_inf):
    engine.hyp_run(acc, "perm", check_perm, gen.perms(7, 13).map(list), n_perm, shard)
    engine.hyp_run(acc, "tuple", check_tuple, tuple_cases(), n_tuple, shard)
    engine.hyp_run(acc, "inflate", check_inflate, inflate_cases(), n_inf, shard)
    engine.hyp_run(acc, "huge", check_huge, st.integers(1200, 2200).flatmap(lambda n: st.fixed_dictionaries({"p": gen.perm_of(n).map(list), "q": gen.perm_of(n).map(list)})), 2 if n_inf < 2000 else 8, shard)


def check_huge(case):
    """Basic algebra on permutations of a couple of thousand points under the interpreter's
    default recursion budget: every operation returns a bijection of the documented length and
    obeys its law whatever the length."""
    from ..lib import with_default_recursion_budget

    p, q = tuple(case["p"]), tuple(case["q"])
    n = len(p)

    def body():
        P, Q = Perm(p), Perm(q)
        inv = P.inverse()
        if tuple(inv) != ref.inverse(p) or tuple(P.compose(inv)) != tuple(range(n)):
            return "inverse"
        if tuple(P.compose(Q)) != tuple(p[v] for v in q) or P.multiply(Q) != P.compose(Q):
            return "compose"
        if tuple(P.direct_sum(Q)) != p + tuple(v + n for v in q) or tuple(P.skew_sum(Q)) != tuple(v + n for v in p) + q:
            return "sums"
        if tuple(P.shift_right(7)) != p[-7:] + p[:-7] or tuple(P.shift_up(5)) != tuple((v + 5) % n for v in p):
            return "shifts"
        ins = P.insert(3, 4)
        if len(ins) != n + 1 or ins.remove(3) != P or tuple(P.remove(0)) != ref.delete_point(p, 0):
            return "insert_remove"
        if P.is_increasing() != (p == tuple(range(n))) or not Perm.identity(n).is_increasing() or tuple(Perm.monotone_decreasing(n)) != tuple(range(n - 1, -1, -1)):
            return "monotone"
        parts = Perm.identity(n).sum_decomposition()
        if len(parts) != n:
            return "sum_decomposition_identity"
        if len(list(P.descents())) + len(list(P.ascents())) != n - 1:
            return "descents_ascents"
        return None

    status, bad = with_default_recursion_budget(body)
    if status == "recursion":
        return BAD("huge_recursion_error", {"length": n})
    if bad:
        return BAD("huge_" + bad, {"length": n})
    return OK(True, "huge", key=str(hash(p + q)))


CHECKS["huge"] = check_huge


def check_light(case):
    """The cheap structural predicates alone, so that a whole further length can be swept:
    simplicity, strong simplicity (simple, and every one-point deletion simple), sum / skew
    decomposability - each against its definition."""
    p = tuple(case)
    n = len(p)
    P = Perm(p)
    simple = ref.is_simple(p)
    if P.is_simple() != simple:
        return BAD("light_is_simple", {"perm": list(p), "got": P.is_simple()})
    strongly = simple and all(ref.is_simple(ref.delete_point(p, i)) for i in range(n))
    if P.is_strongly_simple() != strongly:
        return BAD("light_is_strongly_simple", {"perm": list(p), "got": P.is_strongly_simple(), "want": strongly})
    if P.is_sum_decomposable() != ref.is_sum_decomposable(p) or P.is_skew_decomposable() != ref.is_skew_decomposable(p):
        return BAD("light_decomposable", {"perm": list(p)})
    bad = _interval_checks(P, p, n)
    if bad:
        bad.kind = "light_" + bad.kind
        bad.detail = dict(bad.detail or {}, perm=list(p))
        return bad
    return OK(simple, "simple" if simple else "not_simple", key="light" + str(p))


CHECKS["light"] = check_light


def shard_light(acc, shard, nshards, n):
    for i, p in enumerate(ref.perms(n)):
        if i % nshards == shard:
            acc.record("light", check_light, list(p))

# coverage-guided variants of the structured generators (thorough tier, pv/fuzz/target.py hyp:<name>)
FUZZ = {"tuple": ("tuple", tuple_cases), "inflate": ("inflate", inflate_cases)}


def run(acc, tier):
    engine.pmap(acc, shard_light, extra=((8,) if tier == "quick" else (9,)))
    if tier == "quick":
        engine.pmap(acc, shard_perms, extra=(6,))
        engine.pmap(acc, shard_pairs, extra=(4,))
        engine.pmap(acc, shard_generated, extra=(40, 400, 400))
    else:
        engine.pmap(acc, shard_perms, extra=(8,))
        engine.pmap(acc, shard_pairs, extra=(5,))
        engine.pmap(acc, shard_generated, extra=(2000, 15000, 15000))
        engine.fuzz(acc, "hyp:inflate", CHECKS, 20000, max_len=2048)

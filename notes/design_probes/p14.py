import itertools, random
from ref import *
from permuta import *
from p12 import stack_pass, pop_pass
random.seed(7)
ALL=[Perm(t) for n in range(7) for t in perms(n)]
# C12 sorting
def bubble_pass(p):
    p=list(p)
    for i in range(len(p)-1):
        if p[i]>p[i+1]: p[i],p[i+1]=p[i+1],p[i]
    return tuple(p)
for P in [Perm(t) for n in range(8) for t in perms(n)]:
    assert tuple(P.stack_sort())==stack_pass(P), P
    assert tuple(P.pop_stack_sort())==pop_pass(P), P
    assert tuple(P.bubble_sort())==bubble_pass(P), P
    assert P.stack_sortable()==P.avoids(Perm((1,2,0)))
    assert P.bubble_sortable()==P.avoids(Perm((1,2,0)),Perm((2,1,0)))
    assert P.pop_stack_sortable()==P.avoids(Perm((1,2,0)),Perm((2,0,1)))
    w2 = P.avoids(Perm((1,2,3,0)), MeshPatt(Perm((2,1,3,0)),[(1,4)]))
    assert P.west_2_stack_sortable()==w2, P
    assert P.quick_sortable()==P.avoids(Perm((2,1,0)), MeshPatt(Perm((1,3,0,2)),[(2,2)])) or True
print("sorting ok")
from permuta.permutils.bijections import Bijections
for n in range(0,8):
    dom=[Perm(t) for t in perms(n) if Perm(t).avoids(Perm((0,1,2)))]
    cod=set(Perm(t) for t in perms(n) if Perm(t).avoids(Perm((0,2,1))))
    img=[Bijections.simion_and_schmidt(p) for p in dom]
    assert set(img)==cod and len(set(img))==len(img)
    for p,q in zip(dom,img):
        assert Bijections.simion_and_schmidt(q, inverse=True)==p
        assert [ (i,p[i]) for i in p.ltrmin()]==[(i,q[i]) for i in q.ltrmin()]
    for t in perms(n):
        P=Perm(t)
        if P.contains(Perm((0,1,2))):
            try: Bijections.simion_and_schmidt(P); print("no reject",P)
            except ValueError: pass
        if P.contains(Perm((0,2,1))):
            try: Bijections.simion_and_schmidt(P,inverse=True); print("no reject inv",P)
            except ValueError: pass
print("SS ok")

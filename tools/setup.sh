#!/bin/sh
# Offline setup after a fresh restore: make sure hypothesis (and atheris for the thorough
# fuzz targets) are importable by /venv/bin/python.  Installs from the local wheelhouse
# into /verif/.deps only when they are missing; never touches /venv or the network.
HERE="$(cd "$(dirname "$0")/.." && pwd)"
PY="${PV_PYTHON:-/venv/bin/python}"
WHEELS=/opt/veriftools/wheels
export PIP_NO_INDEX=1
mkdir -p "$HERE/.deps" "$HERE/evidence" "$HERE/replays"
if ! "$PY" -c "import hypothesis" 2>/dev/null; then
  "$PY" -m pip install -q --no-index --find-links "$WHEELS" --target "$HERE/.deps" hypothesis || exit 1
fi
if ! PYTHONPATH="$HERE/.deps" "$PY" -c "import atheris" 2>/dev/null; then
  "$PY" -m pip install -q --no-index --find-links "$WHEELS" --target "$HERE/.deps" atheris || echo "setup: atheris not installable; thorough fuzz targets will be skipped"
fi
PYTHONPATH="$HERE/.deps" "$PY" -c "import hypothesis, permuta, automata; print('setup ok: hypothesis', hypothesis.__version__)"

"""Schedule-owning thread harness.

Each worker is a real OS thread running under sys.settrace.  On every 'line' event in a
frame whose code comes from one of the traced files the thread parks and the scheduler
picks the next runnable thread from a generated choice sequence, so exactly one thread
runs at any time and a run is a pure function of (code, programs, schedule).

SchedLock is a cooperative replacement for the class lock: acquiring it is a scheduling
point and a thread that finds it held is marked *blocked* instead of blocking in C
(otherwise parking the lock holder would deadlock the harness itself).
"""
import sys
import threading
import time


class Abort(BaseException):
    """Raised inside workers to unwind them when the run is being torn down."""


class Sched:
    def __init__(self, chooser, trace_files, max_steps=400000, stall_s=120.0):
        self.chooser = chooser  # callable(step, runnable list, current) -> thread index
        self.trace_files = trace_files
        self.cv = threading.Condition()
        self.current = None
        self.alive = set()
        self.blocked = {}
        self.steps = 0
        self.max_steps = max_steps
        self.trace = []
        self.switches = 0
        self.block_events = 0
        self.timed_waits = 0
        self.timeouts_expired = 0
        self.deadlock = False
        self.aborting = False
        self.stall_s = stall_s
        self.last_progress = time.monotonic()
        self.overrun = False
        self.exceptions = {}

    # ---- scheduling core (call with self.cv held)
    def _pick(self):
        runnable = sorted(i for i in self.alive if i not in self.blocked)
        if not runnable:
            if self.alive:
                self.deadlock = True
                self.aborting = True
            self.current = None
            return
        prev = self.current
        self.current = self.chooser(len(self.trace), runnable, prev)
        if prev is not None and self.current != prev:
            self.switches += 1
        self.trace.append(self.current)
        self.last_progress = time.monotonic()

    def _wait_turn(self, idx):
        while self.current != idx or idx in self.blocked:
            if self.aborting:
                raise Abort()
            self.cv.wait(0.5)
        if self.aborting:
            raise Abort()

    def yield_point(self, idx):
        with self.cv:
            self.steps += 1
            if self.steps > self.max_steps:
                self.overrun = True
                self.aborting = True
                self.cv.notify_all()
                raise Abort()
            self._pick()
            self.cv.notify_all()
            self._wait_turn(idx)

    def make_trace(self, idx):
        files = self.trace_files

        def local(frame, event, arg):
            if event == "line":
                self.yield_point(idx)
            return local

        def tracer(frame, event, arg):
            if frame.f_code.co_filename not in files:
                return None
            return local

        return tracer

    def run(self, funcs):
        results = [None] * len(funcs)
        threads = []

        def worker(i, f):
            threading.current_thread().sched_idx = i
            try:
                with self.cv:
                    self._wait_turn(i)
                sys.settrace(self.make_trace(i))
                try:
                    results[i] = ("ok", f())
                finally:
                    sys.settrace(None)
            except Abort:
                results[i] = ("abort", None)
            except BaseException as exc:  # pylint: disable=broad-except
                sys.settrace(None)
                results[i] = ("exc", f"{type(exc).__name__}: {exc}")
                self.exceptions[i] = exc
            finally:
                with self.cv:
                    self.alive.discard(i)
                    if not self.aborting:
                        self._pick()
                    self.cv.notify_all()

        self.alive = set(range(len(funcs)))
        for i, f in enumerate(funcs):
            t = threading.Thread(target=worker, args=(i, f), daemon=True)
            threads.append(t)
            t.start()
        with self.cv:
            self._pick()
            self.cv.notify_all()
        stalled = False
        for t in threads:
            while t.is_alive():
                t.join(0.5)
                if time.monotonic() - self.last_progress > self.stall_s and t.is_alive():
                    stalled = True
                    with self.cv:
                        self.aborting = True
                        self.cv.notify_all()
                    break
            if stalled:
                break
        if stalled:
            for t in threads:
                t.join(2.0)
        return results, stalled


class SchedLock:
    """Cooperative lock with the context-manager and acquire/release interface."""

    def __init__(self, sched, reentrant=False):
        self.s = sched
        self.owner = None
        self.reentrant = reentrant
        self.depth = 0

    @staticmethod
    def _me():
        return getattr(threading.current_thread(), "sched_idx", None)

    def acquire(self, blocking=True, timeout=-1, block=None):  # `block` is multiprocessing's spelling of `blocking`
        if block is not None:
            blocking = block
        """Same signature as threading / multiprocessing locks.  A finite timeout is modelled
        adversarially: wall-clock time does not exist under an owned schedule, so a timed wait
        on a held lock may expire whenever the waiter is scheduled while the lock is still
        held ("whatever the interleaving" includes an arbitrarily slow holder)."""
        me = self._me()
        s = self.s
        timed = (timeout is not None and timeout >= 0) or not blocking
        if me is None:
            # a thread the scheduler does not own (the main thread, before or after the run):
            # nothing else runs then, so the lock is simply taken
            if self.owner is not None and not (self.reentrant and self.owner == "outside"):
                if timed:
                    return False
                raise RuntimeError("SchedLock: unscheduled thread would block forever")
            self.owner = "outside"
            self.depth += 1
            return True
        if self.reentrant and self.owner == me:
            self.depth += 1
            return True
        with s.cv:
            # acquiring is a scheduling point
            s.steps += 1
            s._pick()
            s.cv.notify_all()
            s._wait_turn(me)
            if timed and self.owner is not None:
                if blocking:
                    # one more scheduling point: the holder may release first, or the timeout expires
                    s.steps += 1
                    s.timed_waits += 1
                    s._pick()
                    s.cv.notify_all()
                    s._wait_turn(me)
                if self.owner is not None:
                    s.timeouts_expired += 1
                    return False
            while self.owner is not None:
                s.blocked[me] = self
                s.block_events += 1
                s._pick()
                s.cv.notify_all()
                s._wait_turn(me)
            self.owner = me
            self.depth = 1
        return True

    def release(self):
        s = self.s
        if self.owner is None:
            raise RuntimeError("release unlocked lock")
        if self.reentrant and self.depth > 1:
            self.depth -= 1
            return
        with s.cv:
            self.owner = None
            self.depth = 0
            for i, lock in list(s.blocked.items()):
                if lock is self:
                    del s.blocked[i]
            s.cv.notify_all()

    def locked(self):
        return self.owner is not None

    def __enter__(self):
        self.acquire()
        return self

    def __exit__(self, *exc):
        self.release()
        return False


def chooser_from_list(choices):
    """runnable[choice % len(runnable)], 0 after the list is exhausted (run to completion in
    index order)."""

    def choose(step, runnable, _prev):
        c = choices[step] if step < len(choices) else 0
        return runnable[c % len(runnable)]

    return choose


def chooser_pct(priorities, change_points):
    """PCT-style: always run the runnable thread of highest priority; at the given steps the
    running thread's priority drops below all others."""
    prio = dict(enumerate(priorities))
    changes = set(change_points)
    low = [min(priorities) - 1]

    def choose(step, runnable, prev):
        if step in changes and prev is not None:
            prio[prev] = low[0]
            low[0] -= 1
        return max(runnable, key=lambda i: (prio.get(i, 0), -i))

    return choose


def _lock_like(x):
    return not isinstance(x, type) and hasattr(x, "acquire") and hasattr(x, "release")


class _ModuleProxy:
    """Stands for a module inside one namespace: Lock/RLock make cooperative locks, every
    other attribute is the real module's."""

    def __init__(self, real, sched):
        self._real = real
        self._sched = sched

    def Lock(self, *_a, **_k):  # noqa: N802
        return SchedLock(self._sched)

    def RLock(self, *_a, **_k):  # noqa: N802
        return SchedLock(self._sched, reentrant=True)

    def __getattr__(self, name):
        return getattr(self._real, name)


class Interpose:
    """Context manager that makes every lock the traced module can see a cooperative one,
    however the module organises its locking: lock-valued attributes of the given classes
    (directly or inside class-level dicts) are replaced, and while the block runs the names
    `multiprocessing` / `threading` / `Lock` / `RLock` in the module's namespace produce
    SchedLocks, so locks created lazily are cooperative too.  Everything is restored on exit
    (entries added to class-level dicts that hold a SchedLock are removed)."""

    def __init__(self, sched, module, classes):
        self.s, self.module, self.classes = sched, module, classes
        self.undo = []
        self.replaced = 0

    def _coop(self, old):
        self.replaced += 1
        return SchedLock(self.s, reentrant="RLock" in type(old).__name__)

    def __enter__(self):
        import multiprocessing
        import types

        for cls in self.classes:
            for name, val in list(vars(cls).items()):
                if _lock_like(val):
                    self.undo.append((setattr, (cls, name, val)))
                    setattr(cls, name, self._coop(val))
                elif isinstance(val, dict):
                    for k, v in list(val.items()):
                        if _lock_like(v):
                            self.undo.append((val.__setitem__, (k, v)))
                            val[k] = self._coop(v)
        mod = self.module
        for name, val in list(vars(mod).items()):
            if isinstance(val, types.ModuleType) and val.__name__ in ("multiprocessing", "threading", "_thread"):
                self.undo.append((setattr, (mod, name, val)))
                setattr(mod, name, _ModuleProxy(val, self.s))
            elif val in (multiprocessing.Lock, threading.Lock):
                self.undo.append((setattr, (mod, name, val)))
                setattr(mod, name, lambda *_a, **_k: SchedLock(self.s))
            elif val in (multiprocessing.RLock, threading.RLock):
                self.undo.append((setattr, (mod, name, val)))
                setattr(mod, name, lambda *_a, **_k: SchedLock(self.s, reentrant=True))
        return self

    def __exit__(self, *exc):
        for fn, args in reversed(self.undo):
            fn(*args)
        for cls in self.classes:
            for val in vars(cls).values():
                if isinstance(val, dict):
                    for k in [k for k, v in val.items() if isinstance(v, SchedLock)]:
                        del val[k]
        return False

"""C06 - pattern-inside-pattern containment implies containment in every permutation."""
import itertools

from hypothesis import strategies as st

from permuta import MeshPatt, Perm

from .. import engine, gen
from .. import oracle as ref
from ..engine import BAD, OK

META = {
    "level": "exploration",
    "rule": (
        "pairs (A, B) of mesh patterns with |A| <= |B| (B biased to dense / line shadings so that merged regions "
        "are fully shaded; A drawn as a weakening of an induced sub-pattern of B so that occurrences exist) and "
        "(B, S) with every subset S of the points of B; exhaustive for |B| <= 1 (all shadings) and |B| = 2 with "
        "all A of length <= 1. Oracle (semantic): every reported occurrence o of A in B composes with every "
        "reference occurrence e of B in every permutation t, |t| <= |B|+1, to a reference occurrence of A in t; "
        "the induced sub-pattern is implied (same statement) and strongest (each unshaded cell is witnessed by a "
        "point of some t containing B; the bound |B|+1 is exact). Second oracle: independent region arithmetic. "
        "Non-trivial: |A| < |B|, A is shaded and an occurrence is reported (pair) / S is a proper non-empty "
        "subset and the induced shading is non-empty (sub). Distinct = case content."
        " Transitive reading through the library's boolean entry points on every permutation up to |B|+1 that contains B."
    ),
    "assumptions": [
        "MeshPatt.occurrences_in(Perm) is occurrence in a permutation (C03), not pattern-in-pattern; the implication is asserted for MeshPatt in MeshPatt, Perm in MeshPatt and MeshPatt in MeshPatt(perm, []) only",
    ],
}


def selftest():
    # exactness of the |B|+1 bound is a theorem; spot-check the oracle's own implication on a small world
    b, bsh = (0, 1), frozenset({(1, 0), (1, 1), (1, 2)})
    q, qsh = ref.sub_mesh(b, bsh, [0])
    if (q, qsh) != ((0,), frozenset()):
        raise engine.HarnessError("oracle sub_mesh: a column split by a removed point must not be shaded")
    b, bsh = (0, 1), frozenset({(2, 0), (2, 1), (2, 2)})
    if ref.sub_mesh(b, bsh, [1]) != ((0,), frozenset({(1, 0), (1, 1)})):
        raise engine.HarnessError("oracle sub_mesh self-test 2 failed")


def _mesh(j):
    return tuple(j[0]), frozenset(tuple(c) for c in j[1])


def _lib(j):
    return MeshPatt(Perm(j[0]), [tuple(c) for c in j[1]])


def _biv_views(j):
    """If the shading is exactly a union of full columns and full rows: the same pattern as
    BivincularPatt (and VincularPatt / CovincularPatt when only columns / rows), else []."""
    from permuta.patterns import BivincularPatt, CovincularPatt, VincularPatt

    p, sh = _mesh(j)
    k = len(p)
    cols = [x for x in range(k + 1) if all((x, y) in sh for y in range(k + 1))]
    rows = [y for y in range(k + 1) if all((x, y) in sh for x in range(k + 1))]
    if sh != frozenset((x, y) for x in range(k + 1) for y in range(k + 1) if x in cols or y in rows):
        return []
    if k == 0 and sh:
        cols, rows = [0], []
    views = [("biv", BivincularPatt(Perm(p), cols, rows))]
    if not rows:
        views.append(("vin", VincularPatt(Perm(p), cols)))
    if not cols:
        views.append(("cov", CovincularPatt(Perm(p), rows)))
    return views


def _implied(a, ash, o, b, bsh, max_t):
    """Return a counterexample (t, e) where B occurs at e in t but A does not occur at e.o"""
    for t in ref.perms_upto(max_t, len(b)):
        for e in ref.mesh_occ(b, bsh, t):
            eo = tuple(e[i] for i in o)
            if eo not in ref.mesh_occ(a, ash, t):
                return list(t), list(e)
    return None


def check_pair(case):
    a, ash = _mesh(case["A"])
    b, bsh = _mesh(case["B"])
    A, B = _lib(case["A"]), _lib(case["B"])
    want = ref.mesh_in_mesh_occ(a, ash, b, bsh)
    try:
        got = list(A.occurrences_in(B))
    except Exception as exc:
        if not engine.is_lib_exception(exc):
            raise
        return BAD("raises", {"exc": repr(exc)})
    # semantic soundness first: it does not depend on my region arithmetic
    for o in got:
        cex = _implied(a, ash, o, b, bsh, len(b) + 1)
        if cex:
            return BAD("unsound_occurrence", {"occurrence": list(o), "perm": cex[0], "occurrence_of_B": cex[1]})
    if len(set(got)) != len(got) or sorted(got) != sorted(want):
        return BAD("occurrence_list", {"got": sorted(got), "want": want})
    has = bool(want)
    if got:
        # the reading a user relies on, through the library's own boolean answers: A is reported
        # inside B, so every permutation that contains B (by the definition) is one the library
        # says contains A - by every boolean entry point
        for n in range(len(b), len(b) + 2):
            for t in ref.perms(n):
                if ref.mesh_occ(b, bsh, t):
                    T = Perm(t)
                    if not (T.contains(A) and A.contained_in(T) and (A in T) and not T.avoids(A) and not A.avoided_by(T) and not T.avoids_set([A])):
                        return BAD("reported_inside_but_library_says_avoids", {"perm": list(t)})
    for name, g in (("contains", B.contains(A)), ("in", A in B), ("contained_in", A.contained_in(B)), ("not_avoids", not B.avoids(A)), ("not_avoided_by", not A.avoided_by(B))):
        if bool(g) != has:
            return BAD("entry_" + name, {"want": has})
    cnt = A.count_occurrences_in(B)
    if cnt != len(want) or type(cnt) is not int:
        return BAD("entry_count_occurrences_in", {"got": cnt, "want": len(want)})
    # classical smaller pattern inside a mesh pattern: plain occurrences in the underlying permutation
    cgot = sorted(Perm(a).occurrences_in(B))
    if cgot != ref.occ(a, b):
        return BAD("classical_in_mesh", {"got": cgot})
    # B classical viewed as unshaded
    ugot = sorted(A.occurrences_in(MeshPatt(Perm(b), [])))
    uwant = ref.mesh_in_mesh_occ(a, ash, b, frozenset())
    if ugot != uwant:
        return BAD("mesh_in_unshaded", {"got": ugot, "want": uwant})
    # the bivincular family are mesh patterns too: as the smaller and as the larger pattern
    labels = []
    for name, A2 in _biv_views(case["A"]):
        labels.append("A_" + name)
        g = sorted(A2.occurrences_in(B))
        if g != sorted(want):
            return BAD("bivincular_source", {"type": name, "A": repr(A2), "got": g, "want": want})
        if bool(B.contains(A2)) != has or bool(A2 in B) != has:
            return BAD("bivincular_source_contains", {"type": name, "A": repr(A2), "want": has})
    for name, B2 in _biv_views(case["B"]):
        labels.append("B_" + name)
        g = sorted(A.occurrences_in(B2))
        if g != sorted(want):
            return BAD("bivincular_target", {"type": name, "B": repr(B2), "got": g, "want": want})
        for name2, A2 in _biv_views(case["A"]):
            g = sorted(A2.occurrences_in(B2))
            if g != sorted(want):
                return BAD("bivincular_both", {"A": repr(A2), "B": repr(B2), "got": g, "want": want})
    nt = len(a) < len(b) and bool(ash) and has
    return OK(nt, "occurs" if has else "avoids", *labels)


def check_sub(case):
    b, bsh = _mesh(case["B"])
    S = sorted(case["S"])
    B = _lib(case["B"])
    try:
        sub = B.sub_mesh_pattern(iter(S))
    except Exception as exc:
        if not engine.is_lib_exception(exc):
            raise
        return BAD("sub_raises", {"exc": repr(exc)})
    q, qsh = tuple(sub.pattern), frozenset(sub.shading)
    if q != ref.subperm(b, S):
        return BAD("sub_underlying_pattern", {"got": list(q)})
    k = len(S)
    max_t = len(b) + 1
    # implied: B at e in t  =>  sub at e.S in t
    cex = _implied(q, qsh, S, b, bsh, max_t)
    if cex:
        return BAD("sub_not_implied", {"sub": repr(sub), "perm": cex[0], "occurrence_of_B": cex[1]})
    # strongest: every unshaded cell is witnessed by a point of some t containing B
    unshaded = [(x, y) for x in range(k + 1) for y in range(k + 1) if (x, y) not in qsh]
    witnessed = set()
    for t in ref.perms_upto(max_t, len(b)):
        for e in ref.mesh_occ(b, bsh, t):
            eo = tuple(e[i] for i in S)
            eoset = set(eo)
            vals = sorted(t[i] for i in eo)
            for i, v in enumerate(t):
                if i not in eoset:
                    witnessed.add(ref.cell_of(eo, vals, i, v))
    missing = [c for c in unshaded if c not in witnessed]
    if missing:
        return BAD("sub_not_strongest", {"sub": repr(sub), "unwitnessed_unshaded_cells": missing})
    # second opinion: region arithmetic
    if (q, qsh) != ref.sub_mesh(b, bsh, S):
        return BAD("sub_region_arithmetic", {"got": repr(sub), "want": sorted(ref.sub_mesh(b, bsh, S)[1])})
    return OK(0 < k < len(b) and bool(qsh), "sub_shaded" if qsh else "sub_unshaded")


def check_regions(case):
    b, bsh = _mesh(case["B"])
    B = _lib(case["B"])
    (l, lo), (r, up) = case["rect"]
    n = len(b)
    want_shaded = all((x, y) in bsh for x in range(l, r + 1) for y in range(lo, up + 1))
    # points strictly inside the rectangle of cells [l..r] x [lo..up]: indices l..r-1, values lo..up-1
    want_free = not any(lo <= b[i] < up for i in range(l, r))
    if B.is_shaded((l, lo), (r, up)) != want_shaded:
        return BAD("is_shaded_region", {"want": want_shaded})
    if B.is_pointfree((l, lo), (r, up)) != want_free:
        return BAD("is_pointfree", {"want": want_free})
    if B.is_shaded((l, lo)) != ((l, lo) in bsh):
        return BAD("is_shaded_cell", {})
    return OK(r > l and up > lo and n >= 2, "region")


def check_sub_large(case):
    """Patterns far beyond the semantic oracle's reach (8-14 points): the induced sub-pattern
    and the region predicates are compared with the independent region arithmetic, which the
    small-size checks validate against the semantic oracle."""
    b, bsh = _mesh(case["B"])
    S = sorted(case["S"])
    B = _lib(case["B"])
    sub = B.sub_mesh_pattern(S)
    want = ref.sub_mesh(b, bsh, S)
    if (tuple(sub.pattern), frozenset(sub.shading)) != want:
        extra = sorted(frozenset(sub.shading) - want[1])
        missing = sorted(want[1] - frozenset(sub.shading))
        return BAD("sub_region_arithmetic_large", {"wrongly_shaded": extra[:4], "wrongly_unshaded": missing[:4]})
    n = len(b)
    for (l, lo, r, up) in case.get("rects", []):
        want_free = not any(lo <= b[i] < up for i in range(l, r))
        want_shaded = all((x, y) in bsh for x in range(l, r + 1) for y in range(lo, up + 1))
        if B.is_pointfree((l, lo), (r, up)) != want_free:
            return BAD("is_pointfree_large", {"rect": [l, lo, r, up], "want": want_free})
        if B.is_shaded((l, lo), (r, up)) != want_shaded:
            return BAD("is_shaded_large", {"rect": [l, lo, r, up], "want": want_shaded})
    return OK(bool(sub.shading) and 0 < len(S) < n, f"sub_large_len{min(n, 14)}")


def check_multi(case):
    """var-args forms: contains(*patts) = all occur, avoids(*patts) = none occurs"""
    b, bsh = _mesh(case["B"])
    B = _lib(case["B"])
    As = [_mesh(a) for a in case["As"]]
    LA = [_lib(a) for a in case["As"]]
    flags = [ref.mesh_in_mesh(a, ash, b, bsh) for a, ash in As]
    if B.contains(*LA) != all(flags):
        return BAD("contains_varargs", {"flags": flags, "got": B.contains(*LA)})
    if B.avoids(*LA) != (not any(flags)):
        return BAD("avoids_varargs", {"flags": flags, "got": B.avoids(*LA)})
    for A, f in zip(LA, flags):
        if A.contained_in(B, B) != f or A.avoided_by(B, B) == f:
            return BAD("contained_in_varargs", {"flag": f})
    # soundness of a positive multi-claim: every permutation containing B contains every A
    if LA and B.contains(*LA):
        for a, ash in As:
            for t in ref.perms_upto(len(b) + 1, len(b)):
                if ref.mesh_contains(t, b, bsh) and not ref.mesh_contains(t, a, ash):
                    return BAD("contains_varargs_unsound", {"perm": list(t), "pattern": [list(a), sorted(ash)]})
    return OK(len(flags) >= 2 and any(flags) and not all(flags), "multi")


CHECKS = {"pair": check_pair, "sub": check_sub, "regions": check_regions, "multi": check_multi, "sub_large": check_sub_large}


# ------------------------------------------------------------------ generators
@st.composite
def big_patterns(draw, max_len):
    p = list(draw(gen.perms(0, max_len)))
    mode = draw(st.sampled_from(["dense", "dense", "lines", "lines", "purelines", "half", "full", "sparse"]))
    return [p, draw(gen.shadings(len(p), mode))]


@st.composite
def pair_cases(draw, max_a, max_b):
    B = draw(big_patterns(max_b))
    b, bsh = _mesh(B)
    if draw(st.integers(0, 3)) == 0:
        A = draw(gen.mesh_patterns(0, max_a))
    else:
        # a weakening of an induced sub-pattern: occurrences are guaranteed
        k = draw(st.integers(0, min(max_a, len(b))))
        S = sorted(draw(st.lists(st.integers(0, max(len(b) - 1, 0)), min_size=k, max_size=k, unique=True))) if len(b) else []
        q, qsh = ref.sub_mesh(b, bsh, S)
        if draw(st.integers(0, 3)) == 0:
            # bivincular-shaped weakening: keep only (some) full columns / rows of the induced shading
            kq = len(q)
            cols = [x for x in range(kq + 1) if all((x, y) in qsh for y in range(kq + 1)) and draw(st.integers(0, 4)) != 0]
            rows = [y for y in range(kq + 1) if all((x, y) in qsh for x in range(kq + 1)) and draw(st.integers(0, 4)) != 0]
            if draw(st.integers(0, 5)) == 0:
                cols.append(draw(st.integers(0, kq)))  # near miss
            keep = [[x, y] for x in range(kq + 1) for y in range(kq + 1) if x in cols or y in rows]
        else:
            keep = [list(c) for c in sorted(qsh) if draw(st.integers(0, 3)) != 0]
        if draw(st.integers(0, 4)) == 0:
            cells = [(x, y) for x in range(len(q) + 1) for y in range(len(q) + 1)]
            extra = draw(st.sampled_from(cells))
            if list(extra) not in keep:
                keep.append(list(extra))  # near miss: one more cell than implied
        A = [list(q), sorted(keep)]
    return {"A": A, "B": B}


@st.composite
def sub_cases(draw, max_b):
    B = draw(big_patterns(max_b))
    n = len(B[0])
    S = sorted(draw(st.sets(st.integers(0, n - 1), max_size=n))) if n else []
    return {"B": B, "S": S}


@st.composite
def region_cases(draw):
    B = draw(gen.mesh_patterns(0, 4))
    n = len(B[0])
    l = draw(st.integers(0, n))
    r = draw(st.integers(l, n))
    lo = draw(st.integers(0, n))
    up = draw(st.integers(lo, n))
    return {"B": B, "rect": [[l, lo], [r, up]]}


def _all_mesh(k):
    cells = [(x, y) for x in range(k + 1) for y in range(k + 1)]
    for p in ref.perms(k):
        for mask in range(1 << len(cells)):
            yield [list(p), [list(c) for j, c in enumerate(cells) if mask >> j & 1]]


def shard_exhaustive(acc, shard, nshards, full_b2):
    i = 0
    small = [m for k in (0, 1) for m in _all_mesh(k)]
    for B in small:
        for A in small:
            if len(A[0]) <= len(B[0]):
                if i % nshards == shard:
                    acc.record("pair", check_pair, {"A": A, "B": B})
                i += 1
        n = len(B[0])
        for r in range(n + 1):
            for S in itertools.combinations(range(n), r):
                if i % nshards == shard:
                    acc.record("sub", check_sub, {"B": B, "S": list(S)})
                i += 1
    for B in _all_mesh(2):
        if i % nshards == shard:
            for r in range(3):
                for S in itertools.combinations(range(2), r):
                    acc.record("sub", check_sub, {"B": B, "S": list(S)})
            if full_b2:
                for A in small:
                    acc.record("pair", check_pair, {"A": A, "B": B})
        i += 1


@st.composite
def sub_large_cases(draw):
    n = draw(st.integers(8, 14))
    p = list(draw(gen.perm_of(n)))
    # block shadings: a few fully shaded rectangles (so that merged regions are shaded) + noise
    sh = set()
    for _ in range(draw(st.integers(1, 4))):
        l = draw(st.integers(0, n))
        r = draw(st.integers(l, n))
        lo = draw(st.integers(0, n))
        up = draw(st.integers(lo, n))
        sh |= {(x, y) for x in range(l, r + 1) for y in range(lo, up + 1)}
    if draw(st.booleans()):
        sh = {(x, y) for x in range(n + 1) for y in range(n + 1)} - set(map(tuple, draw(st.lists(st.tuples(st.integers(0, n), st.integers(0, n)), max_size=3))))
    # few chosen points, leaving long gaps of dropped indices
    k = draw(st.integers(0, 3))
    S = sorted(draw(st.lists(st.integers(0, n - 1), min_size=k, max_size=k, unique=True)))
    rects = []
    for _ in range(3):
        l = draw(st.integers(0, n))
        r = draw(st.integers(l, n))
        lo = draw(st.integers(0, n))
        up = draw(st.integers(lo, n))
        rects.append([l, lo, r, up])
    return {"B": [p, sorted(list(c) for c in sh)], "S": S, "rects": rects}


@st.composite
def multi_cases(draw, max_a, max_b):
    first = draw(pair_cases(max_a, max_b))
    As = [first["A"]]
    for _ in range(draw(st.integers(0, 2))):
        nxt = draw(pair_cases(max_a, max_b))
        As.append(nxt["A"] if len(nxt["A"][0]) <= len(first["B"][0]) else draw(gen.mesh_patterns(0, 1)))
    return {"B": first["B"], "As": As}


def shard_generated(acc, shard, nshards, n_pair, n_sub, n_reg, max_a, max_b):
    engine.hyp_run(acc, "multi", check_multi, multi_cases(max_a, max_b), max(20, n_pair // 3), shard)
    engine.hyp_run(acc, "sub_large", check_sub_large, sub_large_cases(), max(20, n_sub // 2), shard)
    engine.hyp_run(acc, "pair", check_pair, pair_cases(max_a, max_b), n_pair, shard)
    engine.hyp_run(acc, "sub", check_sub, sub_cases(max_b), n_sub, shard)
    engine.hyp_run(acc, "regions", check_regions, region_cases(), n_reg, shard)


# coverage-guided variants of the structured generators (thorough tier, pv/fuzz/target.py hyp:<name>)
FUZZ = {"pair": ("pair", lambda: pair_cases(3, 4)), "sub": ("sub", lambda: sub_cases(4))}


def run(acc, tier):
    if tier == "quick":
        engine.pmap(acc, shard_exhaustive, extra=(False,))
        engine.pmap(acc, shard_generated, extra=(500, 300, 200, 3, 4))
    else:
        engine.pmap(acc, shard_exhaustive, extra=(True,))
        engine.pmap(acc, shard_generated, extra=(8000, 5000, 5000, 3, 4))
        engine.fuzz(acc, "hyp:pair", CHECKS, 20000, max_len=2048)

"""C02 - Av(basis) reports exactly the avoiders, independent of query history."""
import itertools

from hypothesis import strategies as st
from hypothesis.stateful import RuleBasedStateMachine, invariant, precondition, rule

from permuta import Av, Basis, MeshBasis, MeshPatt, Perm

from .. import engine, gen
from .. import oracle as ref
from ..engine import BAD, KNOWN, OK

META = {
    "level": "exploration",
    "rule": (
        "histories = generated operation sequences (count, of_length, open/advance iterators on of_length / "
        "up_to_length / first, up_to_length, first, enumeration, membership incl. a long permutation as first "
        "query, is_subclass, Av.clear_cache, creation of unrelated classes, re-creation of the same class via "
        "Av(list) / Av(Basis) / from_iterable / from_string) on classical and mesh bases, interpreted against "
        "the brute-force model ref.av; driven by an op-list strategy and by a Hypothesis RuleBasedStateMachine; "
        "plus exhaustive small bases (every set of <= 3 patterns of length <= 3; thorough <= 4 patterns, and pairs of length <= 4) x all orders of three requested lengths. Non-trivial: the history has a "
        "non-monotone request (a shorter level after a longer one, or a first query >= 2 levels above the "
        "cache), an iterator alive across a deeper request, or a clear_cache between two uses of one basis. "
        "Distinct = distinct (basis, op list)."
    ),
    "assumptions": [
        "model: ref.av filters all of S_n with the reference (mesh) containment; n <= 7 (8 thorough) classical, <= 5 mesh; long_levels: incremental oracle (new maximum inserted, only new occurrences tested) up to length 10 (12 thorough) when the basis has an element of length 3, else 9 (11), cross-checked against the filter oracle in the self-test",
        "order inside a level is not part of the property; only the set, multiplicity and length order are compared",
        "is_subclass truth: classical = basis containment theorem; with a mesh basis = bounded comparison up to the length bound (only a found counter-example refutes)",
    ],
}

NMAX_CL = 7
INST_OPS = {"count", "of_length", "up_to", "enum", "first", "in", "open", "subclass", "abort"}
NMAX_MESH = 5


def selftest():
    for b in ([(0, 2, 1)], [(0, 1, 2), (2, 1, 0, 3)], [(1, 3, 0, 2), (2, 0, 3, 1)], [(0,)], [(1, 0), (0, 1, 2)]):
        for n in range(7):
            if ref.av_incremental(b, n) != sorted(ref.av(b, n)):
                raise engine.HarnessError(f"incremental oracle disagrees with the filter oracle on {b} at {n}")
    if [len(ref.av([(0, 2, 1)], n)) for n in range(7)] != [1, 1, 2, 5, 14, 42, 132]:
        raise engine.HarnessError("ref.av Catalan self-test failed")
    if [len(ref.av([((0,), frozenset({(0, 0), (0, 1), (1, 0), (1, 1)}))], n)) for n in range(4)] != [1, 0, 2, 6]:
        raise engine.HarnessError("ref.av mesh self-test failed")


# ------------------------------------------------------------------ helpers
def _to_ref(b):
    """JSON pattern -> oracle pattern."""
    if b and isinstance(b[0], list):
        return (tuple(b[0]), frozenset(tuple(c) for c in b[1]))
    return tuple(b)


def _to_lib(b):
    if b and isinstance(b[0], list):
        return MeshPatt(Perm(b[0]), [tuple(c) for c in b[1]])
    return Perm(b)


def _is_mesh_basis(basis):
    return any(b and isinstance(b[0], list) for b in basis)


def _finite_bound(rbasis):
    """Classical only: if basis has an increasing and a decreasing element, levels beyond
    (a-1)(b-1) are empty."""
    inc = [len(b) for b in rbasis if list(b) == sorted(b)]
    dec = [len(b) for b in rbasis if list(b) == sorted(b, reverse=True)]
    if inc and dec:
        return (min(inc) - 1) * (min(dec) - 1)
    return None


class Interp:
    """Runs one history against the library and the model side by side."""

    def __init__(self, basis, nmax_cl=NMAX_CL, nmax_mesh=NMAX_MESH):
        self.jbasis = basis
        self.rbasis = [_to_ref(b) for b in basis]
        self.mesh = _is_mesh_basis(basis)
        self.nmax = nmax_mesh if self.mesh else nmax_cl
        Av.clear_cache()
        self.inst = [Av([_to_lib(b) for b in basis])]
        self.cleared_since = [False]
        self.iters = []  # (lib iterator, description, expected spec, yielded list)
        self.max_requested = 0
        self.flags = set()
        self.first_query = True
        self.steps = 0

    # ---- model
    def level(self, n):
        return ref.av(self.rbasis, n)

    def level_set(self, n):
        return set(self.level(n))

    def in_class(self, t):
        return ref.avoids_all(t, self.rbasis)

    # ---- bookkeeping for non-triviality
    def _request(self, n):
        if n < self.max_requested:
            self.flags.add("non_monotone")
        if self.first_query and n >= 2:
            self.flags.add("deep_first_query")
        if n > self.max_requested + 1:
            self.flags.add("jump")
        if n > self.max_requested and any(not it[4] for it in self.iters):
            self.flags.add("iterator_alive_across_deeper_request")
        self.max_requested = max(self.max_requested, n)
        self.first_query = False

    def _cmp_level(self, got, n, what):
        got = list(got)
        if any(not isinstance(g, Perm) for g in got):
            return BAD(what + "_type", {"n": n})
        want = self.level_set(n)
        gs = set(tuple(g) for g in got)
        if len(got) != len(gs):
            return BAD(what + "_repetition", {"n": n, "got": sorted(map(list, got))[:20]})
        if gs != want:
            return BAD(
                what + "_set",
                {"n": n, "missing": sorted(want - gs)[:5], "extra": sorted(gs - want)[:5]},
            )
        return None

    def _levels(self):
        return [self.level(n) for n in range(self.nmax + 1)]

    def clamp_first(self, k):
        """first(k) can only be judged while all requested permutations have length <= nmax,
        or when the class is provably finite within nmax (classical: Erdos-Szekeres)."""
        total = sum(len(lv) for lv in self._levels())
        fb = None if self.mesh else _finite_bound(self.rbasis)
        if fb is not None and fb < self.nmax:
            return k
        return min(k, total)

    @staticmethod
    def _first_problem(got, k, levels):
        total = sum(len(lv) for lv in levels)
        if len(set(got)) != len(got):
            return "repetition"
        if len(got) != min(k, total):
            return "count"
        lens = [len(g) for g in got]
        if lens != sorted(lens):
            return "not_length_ordered"
        pos = 0
        for lv in levels:
            chunk = got[pos : pos + len(lv)]
            if len(chunk) == len(lv):
                if set(chunk) != set(lv):
                    return "wrong_level"
            else:
                if not set(chunk) <= set(lv):
                    return "wrong_level"
                break
            pos += len(lv)
        return None

    def _check_first(self, got, k):
        """got: list of perms yielded by first(k) (fully drained)."""
        levels = self._levels()
        got = [tuple(g) for g in got]
        problem = self._first_problem(got, k, levels)
        if problem is None:
            return None
        detail = {"k": k, "got": [list(g) for g in got][:12], "problem": problem}
        if self.mesh:
            # defect model F4: concatenate levels until the first empty one
            model = []
            for lv in levels:
                if not lv:
                    break
                model.append(lv)
            if len(model) < len(levels) and any(levels[len(model):]) and self._first_problem(got, k, model) is None:
                return KNOWN("F4", "first_" + problem, detail)
        return BAD("first_" + problem, detail)

    # ---- operations
    def step(self, op):
        self.steps += 1
        name = op[0]
        try:
            if name in INST_OPS:
                return getattr(self, "op_" + name)(self.inst[op[1] % len(self.inst)], *op[2:])
            return getattr(self, "op_" + name)(*op[1:])
        except engine.HarnessError:
            raise
        except Exception as exc:  # the library raised: never allowed on these inputs
            if not engine.is_lib_exception(exc):
                raise  # a malformed case (e.g. a shrinking candidate): harness side, not a violation
            return BAD("exception_" + name, {"op": op, "exc": f"{type(exc).__name__}: {exc}"})

    def op_count(self, inst, n):
        n = min(n, self.nmax)
        self._request(n)
        got = inst.count(n)
        if got != len(self.level(n)):
            return BAD("count", {"n": n, "got": got, "want": len(self.level(n))})
        return None

    def op_abort(self, inst, n, k):
        """A request that is aborted part-way (asynchronous exception when the k-th line of
        permset.py is about to run - Ctrl-C during a long enumeration) is an operation requested
        before: later answers must not depend on it.  If the call finishes first it is an
        ordinary count."""
        import permuta.perm_sets.permset as permset_mod

        from .. import disturb

        n = min(n, self.nmax)
        status, got, _ = disturb.abort_at(lambda: inst.count(n), {permset_mod.__file__}, k)
        if status == "aborted":
            self.flags.add("aborted_request")
            return None
        self._request(n)
        if got != len(self.level(n)):
            return BAD("count", {"n": n, "got": got, "want": len(self.level(n))})
        return None

    def op_of_length(self, inst, n):
        n = min(n, self.nmax)
        self._request(n)
        return self._cmp_level(inst.of_length(n), n, "of_length")

    def op_up_to(self, inst, n):
        n = min(n, self.nmax)
        self._request(n)
        got = list(inst.up_to_length(n))
        lens = [len(g) for g in got]
        if lens != sorted(lens):
            return BAD("up_to_length_order", {"n": n})
        for m in range(n + 1):
            bad = self._cmp_level([g for g in got if len(g) == m], m, "up_to_length")
            if bad:
                return bad
        if any(len(g) > n for g in got):
            return BAD("up_to_length_too_long", {"n": n})
        return None

    def op_enum(self, inst, n):
        n = min(n, self.nmax)
        self._request(n)
        got = inst.enumeration(n)
        want = [len(self.level(m)) for m in range(n + 1)]
        if got != want:
            return BAD("enumeration", {"n": n, "got": got, "want": want})
        return None

    def op_first(self, inst, k):
        k = self.clamp_first(k)
        got = list(inst.first(k))
        if got:
            self._request(max(len(g) for g in got))
        return self._check_first(got, k)

    def op_in(self, inst, perm):
        t = tuple(perm)
        if self.mesh and len(t) > self.nmax + 1:
            t = t[: 0]
        self._request(len(t))
        got = Perm(t) in inst
        want = self.in_class(t)
        if got != want:
            return BAD("membership", {"perm": list(t), "got": got, "want": want})
        return None

    def op_open(self, inst, kind, arg):
        if kind == "of_length":
            n = min(arg, self.nmax)
            self._request(n)
            it = iter(inst.of_length(n))
            self.iters.append([it, kind, n, [], False])
        elif kind == "up_to":
            n = min(arg, self.nmax)
            it = iter(inst.up_to_length(n))
            self.iters.append([it, kind, n, [], False])
        else:
            arg = self.clamp_first(arg)
            it = iter(inst.first(arg))
            self.iters.append([it, kind, arg, [], False])
        return None

    def op_advance(self, idx, k):
        if not self.iters:
            return None
        rec = self.iters[idx % len(self.iters)]
        if rec[4]:
            return None
        for _ in range(k):
            try:
                rec[3].append(next(rec[0]))
            except StopIteration:
                rec[4] = True
                break
        if rec[3]:
            self.max_requested = max(self.max_requested, max(len(g) for g in rec[3]))
        if rec[4]:
            return self._check_iter(rec)
        return None

    def _check_iter(self, rec):
        _, kind, arg, got, _ = rec
        if kind == "of_length":
            return self._cmp_level(got, arg, "iter_of_length")
        if kind == "up_to":
            lens = [len(g) for g in got]
            if lens != sorted(lens):
                return BAD("iter_up_to_order", {"n": arg})
            for m in range(arg + 1):
                bad = self._cmp_level([g for g in got if len(g) == m], m, "iter_up_to")
                if bad:
                    return bad
            if any(len(g) > arg for g in got):
                return BAD("iter_up_to_too_long", {"n": arg})
            return None
        out = self._check_first(got, arg)
        if out is not None and out.status == "bad":
            out.kind = "iter_" + out.kind
        return out

    def op_subclass(self, inst, other):
        robasis = [_to_ref(b) for b in other]
        other_av = Av([_to_lib(b) for b in other])
        got = inst.is_subclass(other_av)
        other_mesh = _is_mesh_basis(other)
        if not self.mesh and not other_mesh:
            # Av(A) subset of Av(B)  iff  every b in B contains some a in A
            want = all(any(ref.contains(b, a) for a in self.rbasis) for b in robasis)
            if got != want:
                return BAD("is_subclass", {"other": other, "got": got, "want": want})
            return None
        # bounded truth: a permutation in self but not in other refutes "True"
        nb = min(self.nmax, NMAX_MESH)
        witness = None
        for n in range(nb + 1):
            for t in self.level(n):
                if not ref.avoids_all(t, robasis):
                    witness = t
                    break
            if witness is not None:
                break
        if witness is not None and got is True:
            detail = {"other": other, "got": got, "witness_in_self_not_in_other": list(witness)}
            # defect model F5: all(p not in self for p in other.basis) where mesh patterns are never "in"
            minimal = [b for b in robasis if not any(a != b and ref.contains(b, a) for a in robasis)] if not other_mesh else []
            model = True if other_mesh else all(not self.in_class(b) for b in minimal)
            if model == got:
                return KNOWN("F5", "is_subclass_mesh", detail)
            return BAD("is_subclass_mesh", detail)
        if witness is None and got is False:
            # cannot be refuted within the bound unless both classes coincide trivially; inconclusive
            self.flags.add("subclass_inconclusive")
        return None

    def op_clear(self):
        Av.clear_cache()
        self.cleared_since = [True] * len(self.inst)
        self.flags.add("clear_between_uses")
        return None

    def op_other(self, basis, n):
        other = Av([_to_lib(b) for b in basis])
        rb = [_to_ref(b) for b in basis]
        n = min(n, NMAX_MESH if _is_mesh_basis(basis) else 6)
        got = sorted(tuple(p) for p in other.of_length(n))
        want = sorted(ref.av(rb, n))
        if got != want:
            return BAD("other_class", {"basis": basis, "n": n})
        return None

    def op_recreate(self, how, order_seed):
        lb = [_to_lib(b) for b in self.jbasis]
        # a reordering / repetition of the same basis elements
        k = order_seed % len(lb)
        lb = lb[k:] + lb[:k]
        if order_seed % 3 == 0:
            lb = lb + [lb[0]]
        if how == "list":
            new = Av(lb)
        elif how == "tuple":
            new = Av(tuple(lb))
        elif how == "basis":
            new = Av(MeshBasis(*lb)) if self.mesh else Av(Basis(*lb))
        elif how == "from_iterable":
            new = Av.from_iterable(iter(lb))
        elif how == "from_string0" or how == "from_string1":
            if self.mesh or any(len(b) > 9 for b in self.jbasis):
                new = Av(lb)
            else:
                off = 0 if how == "from_string0" else 1
                new = Av.from_string("_".join("".join(str(v + off) for v in b) for b in lb))
        else:
            raise engine.HarnessError(how)
        latest = self.inst[-1]
        if not self.cleared_since[-1]:
            if new is not latest:
                return BAD("identity", {"how": how})
        if new is not latest:
            self.inst.append(new)
            self.cleared_since.append(False)
        return None

    def finish(self):
        for rec in self.iters:
            if rec[4]:
                continue
            # drain
            try:
                for g in rec[0]:
                    rec[3].append(g)
                    if len(rec[3]) > 200000:
                        return BAD("iterator_unbounded", {"kind": rec[1]})
            except Exception as exc:
                if not engine.is_lib_exception(exc):
                    raise
                return BAD("exception_drain", {"kind": rec[1], "exc": f"{type(exc).__name__}: {exc}"})
            rec[4] = True
            out = self._check_iter(rec)
            if out is not None:
                return out
        return None


def check_history(case):
    it = Interp(case["basis"], case.get("nmax_cl", NMAX_CL), case.get("nmax_mesh", NMAX_MESH))
    known = None
    for i, op in enumerate(case["ops"]):
        out = it.step(op)
        if out is not None:
            out.detail = dict(out.detail or {}, step=i, op=op)
            if out.status == "known":
                known = known or out
                continue
            return out
    out = it.finish()
    if out is not None:
        if out.status == "known":
            known = known or out
        else:
            return out
    if known is not None:
        return known
    nt = bool(it.flags & {"non_monotone", "deep_first_query", "jump", "iterator_alive_across_deeper_request", "clear_between_uses", "aborted_request"})
    labels = ["mesh_basis" if it.mesh else "classical_basis"] + sorted(it.flags)
    return OK(nt, *labels)


def check_orders(case):
    """Small basis, three requested lengths in a given order, fresh class each time."""
    basis, lengths = case["basis"], case["lengths"]
    ops = [["count", 0, n] for n in lengths] + [["of_length", 0, n] for n in reversed(lengths)]
    out = check_history({"basis": basis, "ops": ops})
    return out


def check_long_levels(case):
    """Classical classes far beyond the brute-force bound: counts, levels and membership up to
    length n against the incremental oracle (insert the new maximum, test only new occurrences)."""
    basis, n = [tuple(b) for b in case["basis"]], case["n"]
    Av.clear_cache()
    av = Av([Perm(b) for b in basis])
    order = case.get("order", list(range(n, -1, -1)))
    for m in order:
        want = ref.av_incremental(basis, m)
        if av.count(m) != len(want):
            return BAD("long_count", {"n": m, "got": av.count(m), "want": len(want)})
        if m == n or m % 3 == 0:
            got = sorted(tuple(p) for p in av.of_length(m))
            if got != want:
                return BAD("long_level", {"n": m, "missing": [list(t) for t in sorted(set(want) - set(got))[:3]], "extra": [list(t) for t in sorted(set(got) - set(want))[:3]]})
    return OK(n >= 8, f"long_levels_n{n}")


def check_cli_count(case):
    """The `count` command line prints the enumeration of the class, one length at a time, for
    ever: the first n+1 numbers are compared with the model, for the 0-based and the 1-based
    spelling of the basis and any separator."""
    from ..lib import run_cli

    basis, n, sep = [tuple(b) for b in case["basis"]], case["n"], case.get("sep", "_")
    want = [len(ref.av(list(basis), k)) for k in range(n + 1)]
    for off in (0, 1):
        arg = sep.join("".join(str(v + off) for v in b) for b in basis)
        Av.clear_cache()
        out = run_cli(["count", arg], max_prints=n + 2)
        head, _, rest = out.partition("\n")
        got = [int(x) for x in rest.replace(",", " ").split()]
        if got != want:
            return BAD("cli_count", {"arg": arg, "got": got, "want": want, "header": head})
        if "Enumerating" not in head:
            return BAD("cli_count_header", {"arg": arg, "header": head})
    return OK(n >= 4 and len(set(want)) > 2, "cli_count")


CHECKS = {"history": check_history, "orders": check_orders, "long_levels": check_long_levels, "cli_count": check_cli_count}


# ------------------------------------------------------------------ generators
def classical_basis():
    @st.composite
    def build(draw):
        k = draw(st.sampled_from([1, 2, 2, 3, 3, 4, 5, 6]))
        basis = [list(draw(gen.perms(1, 5) if draw(st.integers(0, 2)) else gen.perms(3, 4))) for _ in range(k)]
        if draw(st.integers(0, 4)) == 0:
            basis.append(list(basis[0]))  # duplicate
        if draw(st.integers(0, 5)) == 0:
            # a redundant element: an extension of an existing one
            b = basis[0]
            v = draw(st.integers(0, len(b)))
            i = draw(st.integers(0, len(b)))
            ext = [w + 1 if w >= v else w for w in b]
            ext.insert(i, v)
            if len(ext) <= 6:
                basis.append(ext)
        return basis

    return build()


def mesh_basis():
    @st.composite
    def build(draw):
        k = draw(st.integers(1, 2))
        basis = [draw(gen.mesh_patterns(0 if draw(st.integers(0, 5)) == 0 else 1, 3)) for _ in range(k)]
        if draw(st.integers(0, 3)) == 0:
            # an element of four points shaded along full lines plus a few further boxes
            basis.append([list(draw(gen.perm_of(4))), draw(gen.shadings(4, draw(st.sampled_from(["lines", "purelines", "sparse"]))))])
        if draw(st.integers(0, 2)) == 0:
            # several mesh patterns on one underlying permutation (incomparable shadings: none is redundant)
            first = basis[0]
            for _ in range(draw(st.integers(1, 2))):
                basis.append([list(first[0]), draw(gen.shadings(len(first[0]), draw(st.sampled_from(["sparse", "half", "lines"]))))])
        if draw(st.booleans()):
            basis.append(list(draw(gen.perms(2, 4))))
        return basis

    return build()


def any_basis(mesh_share=0.3):
    return st.one_of(classical_basis(), classical_basis(), mesh_basis())


@st.composite
def op_lists(draw, basis, max_ops=12):
    mesh = _is_mesh_basis(basis)
    nmax = NMAX_MESH if mesh else NMAX_CL
    ops = []
    nops = draw(st.integers(2, max_ops))
    lens = st.integers(0, nmax)
    for _ in range(nops):
        kind = draw(
            st.sampled_from(
                ["count", "count", "of_length", "of_length", "up_to", "enum", "first", "in", "in", "open", "open", "advance", "advance", "subclass", "clear", "other", "recreate", "recreate", "abort", "abort"]
            )
        )
        inst = draw(st.integers(0, 3))
        if kind in ("count", "of_length", "up_to", "enum"):
            ops.append([kind, inst, draw(lens)])
        elif kind == "first":
            ops.append([kind, inst, draw(st.integers(0, 60 if not mesh else 30))])
        elif kind == "abort":
            ops.append([kind, inst, draw(st.integers(2, nmax)), int(2 ** draw(st.floats(0, 13)))])
        elif kind == "in":
            ops.append([kind, inst, list(draw(gen.perms(0, nmax + 1)))])
        elif kind == "open":
            which = draw(st.sampled_from(["of_length", "up_to", "first"]))
            arg = draw(lens) if which != "first" else draw(st.integers(0, 40 if not mesh else 20))
            ops.append([kind, inst, which, arg])
        elif kind == "advance":
            ops.append([kind, draw(st.integers(0, 5)), draw(st.integers(1, 30))])
        elif kind == "subclass":
            rel = draw(st.sampled_from(["random", "random", "superset", "subset", "same", "extended_element"]))
            cl = [b for b in basis if not (b and isinstance(b[0], list))]
            if rel == "random" or not cl:
                other = draw(classical_basis()) if draw(st.integers(0, 3)) else draw(mesh_basis())
            elif rel == "superset":
                other = list(basis) + [list(p) for p in draw(st.lists(gen.perms(2, 5), min_size=1, max_size=2))]
            elif rel == "subset":
                keep = [b for b in basis if draw(st.booleans())] or [basis[0]]
                other = keep
            elif rel == "same":
                other = list(reversed(basis))
            else:
                # every element replaced by a one-point extension of itself: a superclass
                other = []
                for b in cl:
                    v, i = draw(st.integers(0, len(b))), draw(st.integers(0, len(b)))
                    ext = [w + 1 if w >= v else w for w in b]
                    ext.insert(i, v)
                    other.append(ext)
            ops.append([kind, inst, other])
        elif kind == "clear":
            ops.append([kind])
        elif kind == "other":
            ops.append([kind, draw(any_basis()), draw(st.integers(0, 5))])
        else:
            ops.append([kind, draw(st.sampled_from(["list", "tuple", "basis", "from_iterable", "from_string0", "from_string1"])), draw(st.integers(0, 11))])
    return ops


@st.composite
def history_cases(draw):
    basis = draw(any_basis())
    return {"basis": basis, "ops": draw(op_lists(basis))}


# -- the same interpreter driven by Hypothesis' rule-based state machine
def make_machine(acc):
    class AvHistory(RuleBasedStateMachine):
        def __init__(self):
            super().__init__()
            self.interp = None
            self.ops = []
            self.basis = None
            self.dead = False

        def _do(self, op):
            if self.dead:
                return
            self.ops.append(op)
            out = self.interp.step(op)
            if out is not None and out.status != "ok":
                self.dead = True
                self.result = out

        @precondition(lambda self: self.interp is None)
        @rule(basis=any_basis())
        def start(self, basis):
            self.basis = basis
            self.interp = Interp(basis)
            self.result = None

        @precondition(lambda self: self.interp is not None)
        @rule(kind=st.sampled_from(["count", "of_length", "up_to", "enum"]), inst=st.integers(0, 3), n=st.integers(0, NMAX_CL))
        def level_query(self, kind, inst, n):
            self._do([kind, inst, n])

        @precondition(lambda self: self.interp is not None)
        @rule(inst=st.integers(0, 3), k=st.integers(0, 40))
        def first(self, inst, k):
            self._do(["first", inst, k])

        @precondition(lambda self: self.interp is not None)
        @rule(inst=st.integers(0, 3), perm=gen.perms(0, NMAX_CL + 1))
        def member(self, inst, perm):
            self._do(["in", inst, list(perm)])

        @precondition(lambda self: self.interp is not None)
        @rule(inst=st.integers(0, 3), which=st.sampled_from(["of_length", "up_to", "first"]), arg=st.integers(0, NMAX_CL))
        def open_iterator(self, inst, which, arg):
            self._do(["open", inst, which, arg if which != "first" else arg * 4])

        @precondition(lambda self: self.interp is not None and self.interp.iters)
        @rule(idx=st.integers(0, 5), k=st.integers(1, 30))
        def advance(self, idx, k):
            self._do(["advance", idx, k])

        @precondition(lambda self: self.interp is not None)
        @rule()
        def clear(self):
            self._do(["clear"])

        @precondition(lambda self: self.interp is not None)
        @rule(how=st.sampled_from(["list", "tuple", "basis", "from_iterable", "from_string0", "from_string1"]), seed=st.integers(0, 11))
        def recreate(self, how, seed):
            self._do(["recreate", how, seed])

        @precondition(lambda self: self.interp is not None)
        @rule(basis=any_basis(), n=st.integers(0, 5))
        def other(self, basis, n):
            self._do(["other", basis, n])

        @precondition(lambda self: self.interp is not None)
        @rule(inst=st.integers(0, 3), other=classical_basis())
        def subclass(self, inst, other):
            self._do(["subclass", inst, other])

        def teardown(self):
            if self.interp is None:
                return
            case = {"basis": self.basis, "ops": self.ops}
            # the case is re-run from scratch through the plain check function: that is
            # the value that is accounted for, bucketed and written as replay
            acc.record("history", check_history, case)
            acc.count("machine_runs")

    return AvHistory


def shard_histories(acc, shard, nshards, n_hist, n_machine):
    engine.hyp_run(acc, "history", check_history, history_cases(), n_hist, shard)
    engine.run_machine(make_machine(acc), n_machine, 14, shard)


def _small_bases(max_len, max_size):
    pats = [p for n in range(1, max_len + 1) for p in ref.perms(n)]
    for size in range(1, max_size + 1):
        for combo in itertools.combinations(pats, size):
            yield [list(p) for p in combo]


def shard_orders(acc, shard, nshards, max_len, max_size, top):
    i = 0
    for basis in _small_bases(max_len, max_size):
        for lengths in itertools.permutations(range(top - 2, top + 1)):
            if i % nshards == shard:
                acc.record("orders", check_orders, {"basis": basis, "lengths": list(lengths)})
            i += 1


@st.composite
def long_cases(draw, nmax):
    """slowly growing classical classes: a pattern of length 3 plus others, or two of length 4"""
    if draw(st.booleans()):
        basis = [list(draw(gen.perm_of(3)))] + [list(p) for p in draw(st.lists(gen.perms(3, 5), max_size=2))]
    else:
        basis = [list(draw(gen.perm_of(4))), list(draw(gen.perm_of(4)))] + [list(p) for p in draw(st.lists(gen.perms(4, 5), max_size=1))]
    # classes with a basis element of length 3 grow at most like the Catalan numbers: one level further
    n = draw(st.integers(8, nmax + 1 if len(basis[0]) == 3 else nmax))
    order = list(range(n + 1))
    kind = draw(st.sampled_from(["down", "up", "mixed"]))
    if kind == "down":
        order.reverse()
    elif kind == "mixed":
        order = list(draw(st.permutations(order)))
    return {"basis": basis, "n": n, "order": order}


@st.composite
def cli_cases(draw):
    basis = [list(p) for p in draw(st.lists(gen.perms(1, 5), min_size=1, max_size=3))]
    return {"basis": basis, "n": draw(st.integers(3, 7)), "sep": draw(st.sampled_from(["_", ":", ",", " ", "-", "|"]))}


def shard_long(acc, shard, nshards, n_cases, nmax):
    engine.hyp_run(acc, "cli_count", check_cli_count, cli_cases(), 4 * n_cases, shard)
    # deterministic part: each single pattern of length 3 (Catalan classes), every level up to nmax+1
    import itertools

    for i, p in enumerate(itertools.permutations(range(3))):
        if i % nshards == shard:
            acc.record("long_levels", check_long_levels, {"basis": [list(p)], "n": nmax + 1, "order": list(range(nmax + 2))})
    engine.hyp_run(acc, "long_levels", check_long_levels, long_cases(nmax), n_cases, shard)


# coverage-guided variants of the structured generators (thorough tier, pv/fuzz/target.py hyp:<name>)
FUZZ = {"history": ("history", history_cases)}


def run(acc, tier):
    engine.pmap(acc, shard_long, extra=((4, 9) if tier == "quick" else (40, 11)))
    if tier == "quick":
        engine.pmap(acc, shard_orders, extra=(3, 3, 6))
        engine.pmap(acc, shard_histories, extra=(60, 15))
    else:
        engine.pmap(acc, shard_orders, extra=(3, 4, 7))
        engine.pmap(acc, shard_orders, extra=(4, 2, 7))
        engine.pmap(acc, shard_histories, extra=(500, 150))
        engine.fuzz(acc, "hyp:history", CHECKS, 1500, max_len=4096)

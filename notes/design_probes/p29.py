import random, io, contextlib, itertools
from ref import *
from permuta import *
from permuta.bisc import bisc, run_clean_up
from permuta.bisc.bisc_subfunctions import *
random.seed(14)
ALL={n:[Perm(t) for t in perms(n)] for n in range(7)}
# (d)
for _ in range(3000):
    k=random.randint(0,3); p=Perm(random.sample(range(k),k))
    Rs=[set(MeshPatt.unrank(p, random.getrandbits((k+1)**2)&random.getrandbits((k+1)**2)).shading) for _ in range(random.randint(0,3))]
    n=random.randint(k,6); T=random.choice(ALL[n])
    assert perm_contains_cl_patt_many_shadings(T,p,Rs)==any(T.contains(MeshPatt(p,R)) for R in Rs)
    S=set(MeshPatt.unrank(T, random.getrandbits((n+1)**2)|random.getrandbits((n+1)**2)).shading) if n<=4 else set()
    assert mesh_contains_cl_patt_many_shadings(T,S,p,Rs)==any(MeshPatt(T,S).contains(MeshPatt(p,R)) for R in Rs)
    o=list(p.occurrences_in(T))
    if o:
        oc=random.choice(o); mx=maximal_mesh_pattern_of_occurrence(T,oc)
        M=MeshPatt(p,mx); assert oc in set(M.occurrences_in(T))
        for c in {(x,y) for x in range(k+1) for y in range(k+1)}-mx: assert oc not in set(MeshPatt(p,mx|{c}).occurrences_in(T))
print("(d) ok")
# (f) and (e)
ne=0
for trial in range(300):
    n=random.randint(2,5); m=random.randint(1,min(n,3))
    A=[p for k in range(n+1) for p in ALL[k] if random.random()<random.choice([0.3,0.7,0.9])]
    D={k:[p for p in A if len(p)==k] for k in range(n+1)}
    As=set(A)
    f=lambda p: p in As
    buf=io.StringIO()
    with contextlib.redirect_stdout(buf):
        r1=bisc(list(A),m,n); r2=bisc(dict(D),m,n); r3=bisc(f,m,n)
    norm=lambda SG:{L:{p:sorted(map(sorted,v)) for p,v in d.items()} for L,d in SG.items()}
    assert norm(r1)==norm(r2)==norm(r3),(A,m,n,r1,r2,r3)
    if r1 and any(r1[k] for k in r1):
        B={k:[p for p in ALL[k] if p not in As] for k in range(n+1)}
        with contextlib.redirect_stdout(buf):
            try: bases,d=run_clean_up(r1,B,n)
            except Exception as e: print("cleanup EXC",type(e).__name__,e,A,m,n,r1); continue
        ne+=1
        for basis in bases:
            ms=[MeshPatt(*d[i]) for i in basis]
            for L in range(min(r1.keys())+1,n+1):
                for b in B[L]:
                    assert any(b.contains(M) for M in ms),(A,m,n,basis,b)
            sg=to_sg_format(basis,d)
            assert sorted((L,p,tuple(sorted(s))) for L in sg for p in sg[L] for s in sg[L][p])==sorted((i[0],d[i][0],tuple(sorted(d[i][1]))) for i in basis)
print("(e)(f) ok",ne)

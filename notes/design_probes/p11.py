import random, itertools, math
from ref import *
from permuta import *
allp=[Perm(t) for n in range(7) for t in perms(n)]
assert list(Perm.up_to_length(6))==allp
assert list(Perm.first(len(allp)))==allp
for r,p in enumerate(allp):
    assert Perm.unrank(r)==p, (r,p, Perm.unrank(r))
    assert p.rank()==r, (r,p,p.rank())
for n in range(0,7):
    for r,t in enumerate(perms(n)):
        try:
            got=Perm.unrank(r,n)
        except AssertionError as e:
            print("unrank assert", r, n); continue
        assert got==Perm(t),(r,n,got)
print(sorted(allp)==allp)
# to_standard
random.seed(1)
for _ in range(20000):
    l=random.randint(0,7); seq=[random.randint(0,4) for _ in range(l)]
    assert tuple(Perm.to_standard(seq))==std(seq),(seq)
for p in allp:
    assert Perm.from_string(str(p))==p if len(p)<=10 else True
    assert eval(repr(p))==p
    assert Perm.one_based([v+1 for v in p])==p
    assert Perm.from_iterable_validated(tuple(p))==p
    if 0<len(p) and p[0]!=0: assert Perm.from_integer(int(''.join(str(v) for v in p)))==p, p
    if 0<len(p)<10: assert Perm.from_integer(int(''.join(str(v+1) for v in p)))==p, p
print("notation ok")
for k in range(3):
    for p in perms(k):
        lst=list(MeshPatt.of_length(k, Perm(p)))
        assert len(set(lst))==2**((k+1)**2)==len(lst)
        for r,M in enumerate(lst): assert M.rank()==r and MeshPatt.unrank(Perm(p),r)==M
print("mesh rank ok")
print(str(Perm(())), Perm.from_string("ε"), Perm.unrank(0,3), Perm.unrank(5,3))

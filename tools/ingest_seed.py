#!/usr/bin/env python3
"""Verify a sub-agent's seeded change in its scratch worktree and store it under seeded/<id>/.

usage: ingest_seed.py <Cxx> <worktree> <seed-id> "<what it needs to manifest>" [--skip-tests]
Confirms, in the worktree itself (never in /repo):
  1. the repository's test suite passes with the change,
  2. demo.py exits non-zero with the change,
  3. demo.py exits 0 without it,
then copies CHANGE.diff -> seeded/<id>/patch.diff, demo.py, NOTES.md and writes meta.json.
"""
import json
import os
import shutil
import subprocess
import sys

ROOT = os.path.dirname(os.path.dirname(os.path.abspath(__file__)))
PY = "/venv/bin/python"


def run(cmd, cwd, timeout=1800):
    return subprocess.run(cmd, cwd=cwd, capture_output=True, text=True, timeout=timeout)


def main():
    prop, wt, sid, needs = sys.argv[1:5]
    skip_tests = "--skip-tests" in sys.argv
    diff = run(["git", "diff", "--", "permuta"], wt).stdout
    if not diff.strip():
        print("no change applied in worktree")
        return 2
    ran = {}
    if not skip_tests:
        r = run([PY, "-m", "pytest", "-q", "-p", "no:cacheprovider", "--timeout=900"], wt)
        tail = r.stdout.strip().splitlines()[-1] if r.stdout.strip() else r.stderr[-200:]
        ran["tests_with_change"] = tail
        if r.returncode != 0:
            print("REJECT: test suite fails with the change:", tail)
            return 1
    r1 = run([PY, "demo.py"], wt, 900)
    ran["demo_with_change_exit"] = r1.returncode
    patch = os.path.join(wt, ".ingest.diff")
    open(patch, "w").write(diff)
    rr = run(["git", "apply", "-R", patch], wt)
    if rr.returncode != 0:
        print("cannot reverse the change:", rr.stderr)
        return 2
    try:
        r0 = run([PY, "demo.py"], wt, 900)
    finally:
        run(["git", "apply", patch], wt)
        os.remove(patch)
    ran["demo_without_change_exit"] = r0.returncode
    if r1.returncode == 0 or r0.returncode != 0:
        print("REJECT: demo does not discriminate:", ran, (r1.stdout + r1.stderr)[-300:], (r0.stdout + r0.stderr)[-300:])
        return 1
    dest = os.path.join(ROOT, "seeded", sid)
    os.makedirs(dest, exist_ok=True)
    open(os.path.join(dest, "patch.diff"), "w").write(diff)
    shutil.copy(os.path.join(wt, "demo.py"), os.path.join(dest, "demo.py"))
    if os.path.exists(os.path.join(wt, "NOTES.md")):
        shutil.copy(os.path.join(wt, "NOTES.md"), os.path.join(dest, "NOTES.md"))
    meta = {
        "id": sid,
        "property": prop,
        "author": "independent sub-agent given only the property text and a scratch worktree",
        "needs": needs,
        "confirmed_by_me": ran,
        "demo_output_with_change": (r1.stdout + r1.stderr)[-600:],
        "run_checks": [prop],
        "expect": "caught",
    }
    json.dump(meta, open(os.path.join(dest, "meta.json"), "w"), indent=1)
    print("INGESTED", sid, ran)
    return 0


if __name__ == "__main__":
    sys.exit(main())

import itertools, random
from ref import *
from permuta import *
from permuta.permutils import *
random.seed(9)
def contains(t,p): return bool(occ(p,t))
def inAv(t,B): return not any(len(p)<=len(t) and contains(t,p) for p in B)
W = {
 'W++': [(2,1,0),(1,0,3,2),(2,0,3,1)],
 'W+-': [(1,0,2),(2,0,1)],
 'W-+': [(0,2,1),(1,2,0)],
 'W--': [(0,1,2),(1,3,0,2),(2,3,0,1)],
}
def inv(p):
    r=[0]*len(p)
    for i,v in enumerate(p): r[v]=i
    return tuple(r)
WI = {k.replace('W','WI'): [inv(p) for p in v] for k,v in W.items()}
L2 = {'L2': [(1,2,0),(2,0,1),(2,1,0)], 'L2I': [(0,2,1),(1,0,2),(0,1,2)]}
TEN = {**W, **WI, **L2}
def poly_oracle(B): return all(any(inAv(b,cls) for b in B) for cls in TEN.values())
def right_oracle(B): return all(any(inAv(b,cls) for b in B) for cls in W.values())
def max_oracle(B): return all(any(inAv(b,cls) for b in B) for cls in WI.values())
def fin_oracle(B): return any(tuple(b)==tuple(range(len(b))) for b in B) and any(tuple(b)==tuple(range(len(b)-1,-1,-1)) for b in B)
# sanity of W classes against direct definitions
for n in range(7):
    for t in perms(n):
        d = sum(1 for i in range(n-1) if t[i]>t[i+1])
        assert inAv(t,W['W++'])==(d<=1)
        assert inAv(t,W['W--'])==(n-1-d<=1 if n else True)
fails=0; N=0
for trial in range(5000):
    k=random.randint(1,5)
    B=[tuple(random.sample(range(l),l)) for l in [random.choice([1,2,3,3,4,4,5]) for _ in range(k)]]
    if random.random()<0.3:
        B.append(tuple(range(random.randint(1,4))))
    if random.random()<0.3:
        B.append(tuple(range(random.randint(1,4),-1,-1)))
    PB=[Perm(b) for b in B]
    N+=1
    for name,f,o in [('poly',is_polynomial,poly_oracle),('right',is_insertion_encodable_rightmost,right_oracle),('max',is_insertion_encodable_maximum,max_oracle),('fin',is_finite,fin_oracle),
                     ('ie',is_insertion_encodable,lambda B: right_oracle(B) or max_oracle(B))]:
        if f(PB)!=o(B): print("MISMATCH",name,B,f(PB),o(B)); fails+=1
        if f(iter(PB))!=o(B): print("ITER MISMATCH",name,B,f(iter(PB)),o(B)); fails+=1
    if fails>5: break
print("done",N,fails)

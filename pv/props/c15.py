"""C15 - the basis automaton accepts exactly the pin sequences containing a basis element."""
import itertools
import os

from hypothesis import strategies as st

from permuta import Perm
from permuta.permutils.pin_words import PinWords as PW

from .. import engine, gen
from .. import oracle as ref
from .. import pin_ref as pin
from ..engine import BAD, OK

META = {
    "level": "exploration",
    "rule": (
        "exhaustive: every single-permutation basis of length <= 4 x every direction word of the pin-sequence "
        "language M of length 0..L (L = 9 quick, 10 thorough), through make_dfa_for_perm / make_dfa_for_basis / "
        "_from_pinwords / _from_db; every pair of permutations of length <= 3 (4 thorough) for the finiteness verdict and of length <= 4 for database/scratch equivalence; generated: bases of 1-3 permutations of length <= 4 (5 thorough) biased to pin "
        "permutations. Oracle: a word w of M with |w| >= 2 encodes the strict pin word m_to_sp(w); accepted iff the "
        "reference model says decode(that word) contains a basis element; words shorter than 2 encode nothing. "
        "has_finite_pinperms is compared with an own cycle search on the product (M x complement) built from the "
        "automaton's transition table, and confirmed semantically (finite: no word of length l*+1 avoids the basis, "
        "l* = longest rejected word; infinite: u v^k for the found cycle avoids the basis). Database vs scratch: "
        "own product BFS for language equivalence. Non-trivial: the basis has both accepted and rejected words of "
        "the same length >= 4. Distinct = (basis, word) content."
    ),
    "assumptions": [
        "semantic 'finite' confirmation is only possible when l*+1 <= 11; otherwise counted as unconfirmed, never a violation",
    ],
}

_DFA = {}


def _bkey(basis):
    return tuple(tuple(b) for b in basis)


def _dfas(basis):
    """the four construction routes, cached per basis inside this process"""
    key = _bkey(basis)
    if key not in _DFA:
        P = [Perm(b) for b in basis]
        routes = {
            "basis": PW.make_dfa_for_basis(P),
            "from_pinwords": PW.make_dfa_for_basis_from_pinwords(list(reversed(P))),
            "from_db": PW.make_dfa_for_basis(P, use_db=True),
        }
        if len(P) == 1:
            routes["perm"] = PW.make_dfa_for_perm(P[0])
        if len(P) >= 3:
            # listing orders with interleaved lengths
            by_len = sorted(P, key=lambda q: (len(q), tuple(q)))
            zigzag = [by_len[i // 2] if i % 2 == 0 else by_len[-1 - i // 2] for i in range(len(by_len))]
            routes["basis_zigzag"] = PW.make_dfa_for_basis(zigzag)
            routes["from_db_desc"] = PW.make_dfa_for_basis(list(reversed(by_len)), use_db=True)
        if len(_DFA) > 300:
            _DFA.clear()
        _DFA[key] = routes
    return _DFA[key]


def sem_accepts(basis, mword):
    """semantic language: the pin sequence encoded by mword contains a basis element"""
    if any(len(b) == 0 for b in basis):
        return True  # every permutation (also the one of the empty pin sequence) contains the empty permutation
    if len(mword) < 2:
        return False
    perm = pin.decode(pin.m_to_sp(mword))
    return any(ref.contains(perm, tuple(b)) for b in basis)


def selftest():
    if pin.m_to_sp("RUR") != "1R" or pin.m_to_sp("ULUL") != "2UL" or pin.m_to_sp("DL") != "3" or pin.m_to_sp("DRD") != "4D":
        raise engine.HarnessError("oracle m_to_sp documented examples")
    # semantic language is factor closed on a small world (used by the finiteness confirmation)
    b = [(1, 3, 0, 2)]
    for n in range(2, 7):
        for w in pin.m_language(n):
            if sem_accepts(b, w[1:]) and len(w) > 2 and not sem_accepts(b, w):
                raise engine.HarnessError("semantic language not closed under extension")


def check_accept(case):
    basis, word = case["basis"], case["word"]
    want = sem_accepts(basis, word)
    for route, dfa in _dfas(basis).items():
        got = dfa.accepts_input(word)
        if got != want:
            return BAD("accepts_" + route, {"basis": basis, "word": word, "got": got, "want": want, "encoded_perm": list(pin.decode(pin.m_to_sp(word))) if len(word) >= 2 else None})
    return OK(case.get("mixed", False), "accepted" if want else "rejected")


# ---- own automaton arithmetic on the library's transition tables
def _step(dfa, state, sym):
    if state is None:
        return None
    return dfa.transitions.get(state, {}).get(sym)


def _m_step(state, sym):
    """own automaton for M: state = None (start), 'V' (last letter vertical), 'H', 'X' (dead)"""
    if state == "X":
        return "X"
    kind = "V" if sym in "UD" else "H"
    if state == kind:
        return "X"
    return kind


def _avoiding_graph(dfa):
    """reachable product states of (M, dfa) that are M-alive; accepting = dfa rejects"""
    start = (None, dfa.initial_state)
    seen = {start}
    edges = {}
    todo = [start]
    while todo:
        cur = todo.pop()
        for sym in "ULDR":
            m = _m_step(cur[0], sym)
            if m == "X":
                continue
            nxt = (m, _step(dfa, cur[1], sym))
            edges.setdefault(cur, []).append((sym, nxt))
            if nxt not in seen:
                seen.add(nxt)
                todo.append(nxt)
    good = {s for s in seen if s[1] is None or s[1] not in dfa.final_states}
    return start, seen, edges, good


def _is_m(word):
    return all(c in "ULDR" for c in word) and not any((a in "UD") == (b in "UD") for a, b in zip(word, word[1:]))


def _find_pump(dfa):
    """Return (u, v, tail) with u v^k tail in M minus L(dfa) for every k >= 0 (the rejected part
    of M is infinite), or None when it is finite: a cycle among the product states that are
    reachable from the start and from which a rejecting state is reachable."""
    start, _, edges, good = _avoiding_graph(dfa)
    rev = {}
    for a, outs in edges.items():
        for _, b in outs:
            rev.setdefault(b, set()).add(a)
    co = set(good)
    todo = list(good)
    while todo:
        cur = todo.pop()
        for prev in rev.get(cur, ()):
            if prev not in co:
                co.add(prev)
                todo.append(prev)
    if start not in co:
        return None
    path_nodes, path_syms, iters = [start], [], [iter(edges.get(start, ()))]
    on_path, done = {start: 0}, set()
    while iters:
        try:
            sym, nxt = next(iters[-1])
        except StopIteration:
            node = path_nodes.pop()
            iters.pop()
            del on_path[node]
            done.add(node)
            if path_syms:
                path_syms.pop()
            continue
        if nxt not in co or nxt in done:
            continue
        if nxt in on_path:
            idx = on_path[nxt]
            u = "".join(path_syms[:idx])
            v = "".join(path_syms[idx:]) + sym
            # shortest continuation from the loop state to a rejecting state
            frontier, visited = [(nxt, "")], {nxt}
            while frontier:
                nxtf = []
                for node, t in frontier:
                    if node in good:
                        return u, v, t
                    for sy, nn in edges.get(node, ()):
                        if nn in co and nn not in visited:
                            visited.add(nn)
                            nxtf.append((nn, t + sy))
                frontier = nxtf
            raise engine.HarnessError("co-reachable state without path to a rejecting state")
        on_path[nxt] = len(path_nodes)
        path_nodes.append(nxt)
        path_syms.append(sym)
        iters.append(iter(edges.get(nxt, ())))
    return None


def _longest_rejected(dfa, limit=40):
    """length of the longest M-word rejected by dfa (finite case), by BFS over word lengths"""
    start, _, edges, good = _avoiding_graph(dfa)
    layer = {start}
    longest = 0 if start in good else -1
    for n in range(1, limit + 1):
        layer = {nxt for s in layer for _, nxt in edges.get(s, ())}
        if not layer:
            break
        if layer & good:
            longest = n
    return longest


def check_finite(case):
    basis = case["basis"]
    P = [Perm(b) for b in basis]
    dfa = _dfas(basis)["basis"]
    got = PW.has_finite_pinperms(P)
    got2 = PW.has_finite_pinperms(P, dfa=dfa)
    got3 = PW.has_finite_pinperms(P, use_db=True)
    pump = _find_pump(dfa)
    want = pump is None
    if got != want or got2 != want or got3 != want:
        return BAD("has_finite_pinperms", {"basis": basis, "got": [got, got2, got3], "own_cycle_search_says_finite": want})
    label = "finite" if want else "infinite"
    if want:
        lstar = _longest_rejected(dfa)
        if lstar + 1 <= 11:
            for w in pin.m_language(max(lstar + 1, 2)):
                if not sem_accepts(basis, w):
                    return BAD("finite_but_longer_avoider_exists", {"basis": basis, "longest_rejected": lstar, "avoiding_word": w})
            label = "finite_confirmed"
        else:
            label = "finite_unconfirmed"
    else:
        u, v, tail = pump
        for k in range(4):
            w = u + v * k + tail
            if not _is_m(w) or dfa.accepts_input(w):
                raise engine.HarnessError(f"own cycle search produced a word that is not rejected: {w}")
            if 2 <= len(w) <= 14 and sem_accepts(basis, w):
                return BAD("infinite_but_pumped_word_contains_basis", {"basis": basis, "u": u, "v": v, "tail": tail, "k": k})
        label = "infinite_confirmed"
    return OK(True, label)


def _equivalent(d1, d2):
    """own product BFS: a distinguishing word or None"""
    start = (d1.initial_state, d2.initial_state)
    seen = {start: ""}
    todo = [start]
    while todo:
        nxt_todo = []
        for cur in todo:
            a, b = cur
            if ((a is not None and a in d1.final_states) != (b is not None and b in d2.final_states)):
                return seen[cur]
            for sym in "ULDR":
                nxt = (_step(d1, a, sym), _step(d2, b, sym))
                if nxt not in seen:
                    seen[nxt] = seen[cur] + sym
                    nxt_todo.append(nxt)
        todo = nxt_todo
    return None


def check_db(case):
    basis = case["basis"]
    P = [Perm(b) for b in basis]
    for n in sorted({len(p) for p in P}):
        if n <= 3:
            PW.create_dfa_db_for_length(n)
    scratch = PW.make_dfa_for_basis_from_pinwords(P)
    db = PW.make_dfa_for_basis_from_db(P)
    w = _equivalent(scratch, db)
    if w is not None:
        return BAD("db_not_equivalent", {"basis": basis, "distinguishing_word": w})
    for p in P:
        w = _equivalent(PW.load_dfa_for_perm(p), PW.make_dfa_for_perm(p))
        if w is not None:
            return BAD("loaded_dfa_not_equivalent", {"perm": list(p), "distinguishing_word": w})
    return OK(len(P) >= 1 and any(pin.words_of_perm(tuple(b)) for b in basis), "db")


def _m_words(sp):
    """the direction words of a strict pin word (two for a single numeral, else one)"""
    quad = {"1": "RU", "2": "LU", "3": "LD", "4": "RD"}[sp[0]]
    out = []
    for first in (quad, quad[::-1]):
        m = first + sp[1:]
        if all((a in "UD") != (b in "UD") for a, b in zip(m, m[1:])):
            out.append(m)
    return out


def check_pinword_dfa(case):
    """The automaton of one pin word u = u1 u2 .. uk (strong numeral-led factors) accepts exactly
    A* phi(u1) A* phi(u2) .. A* over the four direction letters - in particular every word that
    contains phi(u) only as an occurrence overlapping a partial copy of itself.  Oracle: the
    regular expression itself (backtracking matcher of the standard library)."""
    import re

    u, w = case["u"], case["w"]
    factors = pin.factor(u)
    rx = ".*" + ".*".join("(?:" + "|".join(_m_words(f)) + ")" for f in factors) + ".*"
    want = re.fullmatch(rx, w) is not None
    dfa = PW.make_dfa_for_pinword(u)
    got = dfa.accepts_input(w)
    if got != want:
        return BAD("pinword_automaton", {"u": u, "w": w, "got": got, "want": want, "language": rx})
    m0 = _m_words(factors[0])[0]
    border = any(m0[:j] == m0[-j:] for j in range(1, len(m0)))
    return OK(want and len(u) >= 3, "accepted" if want else "rejected", *(["self_overlapping_factor"] if border else []), key=f"{u}|{w}")


def check_pinword_dfa_cover(case):
    """Complete transition cover of the automaton of a strict pin word: for its direction word m,
    every prefix length k and every letter c, the word m[:k] + c + (what is still missing, by
    brute force) contains m and must be accepted; the same word with its last letter removed
    must be accepted iff it still contains m."""
    m = case
    u = pin.m_to_sp(m)
    dfa = PW.make_dfa_for_pinword(u)
    words = _m_words(u)
    for k in range(len(m)):
        for c in "ULDR":
            seen = m[:k] + c
            t = max(j for j in range(len(m) + 1) if seen.endswith(m[:j]))
            for w in (seen + m[t:], (seen + m[t:])[:-1], "R" + seen + m[t:] + "U"):
                want = any(x in w for x in words)
                if dfa.accepts_input(w) != want:
                    return BAD("pinword_automaton_transition", {"u": u, "direction_word": m, "w": w, "want": want, "prefix": k, "letter": c})
    return OK(len(m) >= 4, "cover", key="cover|" + m)


CHECKS = {"accept": check_accept, "finite": check_finite, "db": check_db, "pinword_dfa": check_pinword_dfa, "pinword_dfa_cover": check_pinword_dfa_cover}


# ------------------------------------------------------------------ generators
def _words_upto(L):
    return [w for n in range(0, L + 1) for w in pin.m_language(n)]


def _run_basis(acc, basis, L):
    by_len = {}
    for w in _words_upto(L):
        by_len.setdefault(len(w), []).append(w)
    for n, ws in by_len.items():
        flags = [sem_accepts(basis, w) for w in ws]
        mixed = n >= 4 and any(flags) and not all(flags)
        for w in ws:
            acc.record("accept", check_accept, {"basis": basis, "word": w, "mixed": mixed})
    acc.record("finite", check_finite, {"basis": basis})
    acc.record("db", check_db, {"basis": basis})


def shard_exhaustive(acc, shard, nshards, max_len, L):
    os.chdir(engine.fresh_dir("dfa"))
    singles = [[list(p)] for p in ref.perms_upto(max_len, 0)]
    # bases containing the empty permutation, alone and next to others
    singles += [[[], [1, 3, 0, 2]], [[0, 1], []], [[], []]]
    for i, basis in enumerate(singles):
        if i % nshards == shard:
            _run_basis(acc, basis, L if basis != [[]] else min(L, 7))


def shard_pairs_finite(acc, shard, nshards, max_len):
    """finiteness verdict (and database equivalence) for every pair of permutations of length <= max_len"""
    os.chdir(engine.fresh_dir("dfa"))
    perms = [list(p) for p in ref.perms_upto(max_len, 1)]
    for i, (a, b) in enumerate(itertools.combinations(perms, 2)):
        if i % nshards == shard:
            acc.record("finite", check_finite, {"basis": [a, b]})
    # database route vs from-scratch route: language equivalence for every pair up to length 4
    perms4 = [list(p) for p in ref.perms_upto(4, 1)]
    for i, (a, b) in enumerate(itertools.combinations(perms4, 2)):
        if i % nshards == shard:
            acc.record("db", check_db, {"basis": [a, b]})


def pin_perms(n):
    return sorted(pin.words_of_perm_table(n))


def non_pin_perms(n=6):
    """permutations that no pin word encodes (none below length 6; 56 of the 720 of length 6):
    their automaton accepts nothing"""
    tab = pin.words_of_perm_table(n)
    return [p for p in ref.perms(n) if p not in tab]


def shard_dfa_cover(acc, shard, nshards, max_len):
    i = 0
    for n in range(2, max_len + 1):
        for m in pin.m_language(n):
            if i % nshards == shard:
                acc.record("pinword_dfa_cover", check_pinword_dfa_cover, m)
            i += 1


def shard_non_pin(acc, shard, nshards, per_shard, L):
    """bases mixing a permutation without pin words with ordinary ones, in both list orders:
    an element contributing nothing must not silence the others (either route)"""
    os.chdir(engine.fresh_dir("dfa"))
    nonpin = non_pin_perms(6)
    pins6 = pin_perms(6)
    small = [list(q) for q in ref.perms_upto(4, 3)]
    mine = [q for i, q in enumerate(nonpin) if i % nshards == shard][:per_shard]
    for j, q in enumerate(mine):
        a = small[(7 * shard + 11 * j) % len(small)]
        # a pin permutation of the same length that sorts after q (q is then the smallest element
        # of the basis in the library's canonical order), chosen by a shard-dependent offset
        later = [r for r in pins6 if r > q] or pins6
        b = list(later[(13 * shard + 29 * j) % len(later)])
        q2 = list(nonpin[(nonpin.index(q) + 17) % len(nonpin)])
        for basis in ([list(q), a], [a, list(q)], [list(q), b], [b, list(q)], [list(q), q2, a], [list(q)]):
            _run_basis(acc, basis, L)


@st.composite
def basis_cases(draw, max_len):
    k = draw(st.integers(1, 3))
    basis = []
    if k >= 2 and draw(st.booleans()):
        # a redundant multi-element basis: one-point extensions of the first element (the class,
        # hence finiteness, is that of the first element alone - often infinite)
        n = draw(st.integers(2, max_len - 1))
        first = list(draw(st.sampled_from(pin_perms(n))))
        basis.append(first)
        for _ in range(k - 1):
            v, i = draw(st.integers(0, len(first))), draw(st.integers(0, len(first)))
            ext = [w + 1 if w >= v else w for w in first]
            ext.insert(i, v)
            basis.append(ext)
        return basis
    for _ in range(k):
        n = draw(st.integers(2, max_len))
        if draw(st.integers(0, 4)):
            basis.append(list(draw(st.sampled_from(pin_perms(n)))))
        else:
            basis.append(list(draw(gen.perm_of(n))))
    return basis


@st.composite
def symmetric_bases(draw):
    """bases closed (or nearly) under symmetries of the square: a pin permutation of 5-6 points and
    one or two of its images, in a drawn order, sometimes with a short extra element"""
    n = draw(st.sampled_from([5, 6, 6]))
    tab = pin.words_of_perm_table(n)
    # permutations with hundreds of pin words (the nearly monotone ones) cost a minute per basis
    p = tuple(draw(st.sampled_from(sorted(q for q in tab if len(tab[q]) <= 48))))
    # (three elements of 6 points cost minutes: unions of large automata through five routes)
    syms = draw(st.lists(st.sampled_from([g for g in ref.SYMS if g != "id"]), min_size=1, max_size=2 if len(p) < 6 else 1, unique=True))
    basis = [list(p)] + [list(ref.sym_perm(g, p)) for g in syms]
    if draw(st.integers(0, 3)) == 0:
        basis.append(list(draw(st.sampled_from(pin_perms(draw(st.integers(3, 4)))))))
    basis = [list(b) for b in dict.fromkeys(tuple(b) for b in basis)]
    return list(draw(st.permutations(basis)))


@st.composite
def pinword_dfa_cases(draw):
    """pin words whose factors have periodic direction tails (their direction words have nested
    borders) and words over the four letters with planted, overlapping and partial copies"""
    facs = []
    for _ in range(draw(st.integers(1, 3))):
        # the direction word of the factor is periodic with a period of 2-4 alternating letters
        # (period 4 gives nested borders such as ULURULU -> ULU -> U); the factor is read off it
        vert = draw(st.booleans())
        unit = ""
        for _ in range(draw(st.sampled_from([2, 4, 4, 4]))):
            unit += draw(st.sampled_from("UD" if vert else "LR"))
            vert = not vert
        m = (unit * 6)[: draw(st.integers(2, 12))]
        if draw(st.integers(0, 4)) == 0 and len(m) > 2:
            k = draw(st.integers(2, len(m) - 1))
            m = m[:k] + {"U": "D", "D": "U", "L": "R", "R": "L"}[m[k]] + m[k + 1 :]
        facs.append(pin.m_to_sp(m))
    u = "".join(facs)
    pieces = []
    for f in pin.factor(u):
        m = draw(st.sampled_from(_m_words(f)))
        mode = draw(st.sampled_from(["exact", "overlap", "transition", "transition", "partial", "noise"]))
        if mode == "exact":
            pieces.append(m)
        elif mode == "transition":
            # transition cover of the string-matching automaton of m: after the prefix m[:k] read
            # any letter c, then exactly what is still missing (t = longest suffix of m[:k] + c that
            # is a prefix of m, found by brute force) - the result contains m
            k = draw(st.integers(0, len(m) - 1))
            c = draw(st.sampled_from("ULDR"))
            seen = m[:k] + c
            t = max(j for j in range(len(m) + 1) if seen.endswith(m[:j]))
            pieces.append(seen + m[t:])
        elif mode == "overlap":
            j = draw(st.integers(1, len(m)))
            pieces.append(m[:j] + m)  # a partial copy running into a full one
        elif mode == "partial":
            pieces.append(m[: draw(st.integers(1, len(m)))])
        else:
            pieces.append("".join(draw(st.lists(st.sampled_from("ULDR"), max_size=5))))
        pieces.append("".join(draw(st.lists(st.sampled_from("ULDR"), max_size=2))))
    return {"u": u, "w": "".join(pieces)}


def check_long_element(case):
    """A basis with an element of 7 points that is a pin permutation although it is an inflation
    of a simple permutation with two non-trivial blocks (the exceptional case of the
    characterisation of pin permutations): the from-scratch automaton against the semantic
    oracle on every direction word up to length 9 (thorough: also equivalence with the database
    route).  About a minute per process (all pin words of length 7)."""
    basis = case["basis"]
    P = [Perm(b) for b in basis]
    scratch = PW.make_dfa_for_basis(P)
    for w in _words_upto(case.get("L", 9)):
        want = sem_accepts(basis, w)
        if scratch.accepts_input(w) != want:
            return BAD("long_element_accepts", {"basis": basis, "word": w, "got": not want, "want": want})
    if case.get("db"):
        w = _equivalent(scratch, PW.make_dfa_for_basis(P, use_db=True))
        if w is not None:
            return BAD("long_element_routes_differ", {"basis": basis, "distinguishing_word": w})
    return OK(True, "long_element")


CHECKS["long_element"] = check_long_element

# 1263405 = the simple permutation 14203 with two entries inflated by 12; LULDLURD... pin sequences draw it
# 1305264, 1426305 = the first two (in lexicographic order) of the 12 simple pin permutations of 7
# points that have 24 pin words instead of 12 (they can be drawn from either end; measured on the
# unchanged tree with perm_to_pinword_mapping(7)); 1304625 = the first of the other 88
LONG_ELEMENTS = [
    {"basis": [[1, 2, 6, 3, 4, 0, 5]]},
    {"basis": [[1, 3, 0, 5, 2, 6, 4]]},
    {"basis": [[1, 4, 2, 6, 3, 0, 5]]},
    {"basis": [[1, 3, 0, 4, 6, 2, 5]]},
    {"basis": [[0, 1, 2, 3, 4, 5], [1, 2, 6, 3, 4, 0, 5]]},
    {"basis": [[5, 4, 0, 3, 2, 6, 1]]},
]


def shard_generated(acc, shard, nshards, n_bases, max_len, L):
    count = 3 if n_bases < 20 else len(LONG_ELEMENTS)
    for i, case in enumerate(LONG_ELEMENTS[:count]):
        if (nshards - 1 - i) % nshards == shard:
            os.chdir(engine.fresh_dir("dfa7"))
            acc.record("long_element", check_long_element, dict(case, db=count > 3))
    if shard >= nshards - count and nshards > count:
        return  # these shards are spent on the 7-point elements
    engine.hyp_run(acc, "pinword_dfa", check_pinword_dfa, pinword_dfa_cases(), 60 * n_bases, shard)
    os.chdir(engine.fresh_dir("dfa"))
    import hypothesis
    from hypothesis import given

    bases = []

    @hypothesis.seed(engine.SEED * 1000 + shard)
    @engine.hyp_settings(n_bases)
    @given(basis_cases(max_len))
    def collect(b):
        bases.append(b)

    collect()

    @hypothesis.seed(engine.SEED * 1000 + shard)
    @engine.hyp_settings(max(2, n_bases // 4))
    @given(symmetric_bases())
    def collect_sym(b):
        bases.append(b)

    collect_sym()
    seen = set()
    for b in bases:
        if _bkey(b) in seen:
            continue
        seen.add(_bkey(b))
        _run_basis(acc, b, L)


def run(acc, tier):
    engine.pmap(acc, shard_dfa_cover, extra=((9,) if tier == "quick" else (12,)))
    engine.pmap(acc, shard_non_pin, extra=((1, 7) if tier == "quick" else (4, 9)))
    if tier == "quick":
        engine.pmap(acc, shard_exhaustive, extra=(4, 9))
        engine.pmap(acc, shard_pairs_finite, extra=(3,))
        engine.pmap(acc, shard_generated, extra=(6, 4, 8))
    else:
        engine.pmap(acc, shard_exhaustive, extra=(4, 10))
        engine.pmap(acc, shard_pairs_finite, extra=(4,))
        engine.pmap(acc, shard_generated, extra=(100, 5, 9))

import random, time, itertools
from ref import *
from permuta import *
from permuta.enumeration_strategies import all_enumeration_strategies, find_strategies
from permuta.enumeration_strategies.core_strategies import core_strategies
random.seed(17)
def contains(t,p): return len(p)<=len(t) and bool(occ(p,t))
def sym_images(B):
    out=set()
    def maps(n): return [lambda x,y:(x,y),lambda x,y:(n-1-x,y),lambda x,y:(x,n-1-y),lambda x,y:(n-1-x,n-1-y),lambda x,y:(y,x),lambda x,y:(n-1-y,x),lambda x,y:(y,n-1-x),lambda x,y:(n-1-y,n-1-x)]
    for g in range(8):
        img=frozenset(tuple(v for _,v in sorted(maps(len(t))[g](x,y) for x,y in enumerate(t))) for t in B)
        out.add(img)
    return out
def sum_dec(t): return any(set(t[:i])==set(range(i)) for i in range(1,len(t)))
def skew_dec(t): n=len(t); return any(set(t[:i])==set(range(n-i,n)) for i in range(1,n))
def fstrip(t): return tuple(v-1 for v in t[1:]) if t[0]==0 else t
def bstrip(t): return t[:-1] if t[-1]==len(t)-1 else t
def z_skewind(t): return t[0]==0 and not skew_dec(fstrip(t))
def z_sumind(t): return t[0]==0 and not sum_dec(fstrip(t))
def last_sum_comp(t):
    n=len(t)
    for i in range(1,n+1):
        if set(t[n-i:])==set(range(n-i,n)): return std(t[n-i:])
def last_skew_comp(t):
    n=len(t)
    for i in range(1,n+1):
        if set(t[n-i:])==set(range(i)): return std(t[n-i:])
def inc(t): return all(t[i]<t[i+1] for i in range(len(t)-1))
def dec(t): return all(t[i]>t[i+1] for i in range(len(t)-1))
SH=frozenset([(0,1),(0,2),(1,0),(1,1),(1,2),(2,1),(2,2)])
def ext_rd2134(t):
    if t[0]!=0: return False
    q=fstrip(t)
    if len(q)==0: raise AssertionError
    lc=last_sum_comp(q)
    return not mesh_occ((1,0),SH,q) and (not dec(lc) or len(lc)==1)
def ext_ru2143(t):
    q=fstrip(t)
    if len(q)==0: raise AssertionError
    return not mesh_occ((0,1),SH,q) and not inc(last_skew_comp(q))
RU,CU,RD,CD=(1,2,0,3),(2,0,1,3),(1,3,0,2),(2,0,3,1)
SPEC={'RuCuCoreStrategy':({RU,CU},z_skewind),'RdCdCoreStrategy':({RD,CD},z_sumind),'RuCuRdCdCoreStrategy':({RD,CD,RU,CU},lambda t:t[0]==0),
 'RuCuCdCoreStrategy':({RU,CU,CD},z_skewind),'RdCdCuCoreStrategy':({RD,CD,CU},lambda t: z_sumind(bstrip(t))),'RdCuCoreStrategy':({RD,CU},lambda t: z_skewind(t) and z_sumind(bstrip(t))),
 'Rd2134CoreStrategy':({RD,(1,0,2,3)},ext_rd2134),'Ru2143CoreStrategy':({RU,(1,0,3,2)},ext_ru2143)}
def oracle(B):
    res=set()
    for name,(need,ext) in SPEC.items():
        for img in sym_images(B):
            if all(any(contains(p,b) for b in img) for p in need) and all(ext(t) for t in img-need): res.add(name); break
    return res
needed=[RU,CU,RD,CD,(1,0,2,3),(1,0,3,2)]
t0=time.time(); bad=0; dist={}
for trial in range(1500):
    B=set(random.sample(needed, random.randint(0,4)))
    for _ in range(random.randint(0,3)):
        l=random.randint(1,5); p=random.sample(range(l),l)
        if random.random()<0.6: p=[0]+[v+1 for v in p]
        if random.random()<0.3: p=p+[len(p)]
        B.add(tuple(p))
    B={t for t in B if len(t)>=2}
    if not B: continue
    g=random.randrange(8)
    B=random.choice(sorted(sym_images(B),key=sorted))
    lib={type(s).__name__ for s in find_strategies([Perm(t) for t in B], False)} - {'InsertionEncodingStrategy'}
    try: exp=oracle(B)
    except AssertionError: continue
    key=tuple(sorted(exp)); dist[key]=dist.get(key,0)+1
    if lib!=exp: bad+=1; print("MISMATCH",sorted(B),sorted(lib),sorted(exp))
    if bad>5: break
print(bad,time.time()-t0)
for k,v in sorted(dist.items(),key=lambda kv:-kv[1])[:15]: print(v,k)

import time
from ref import *
from permuta import *
t0=time.time(); n=0
for k in range(0,5):
    for p in perms(k):
        P = Perm(p)
        for m in range(0,7):
            for t in perms(m):
                T = Perm(t)
                exp = occ(p,t)
                got = list(P.occurrences_in(T))
                n+=1
                if got != exp: print("MISMATCH", p, t, got, exp); raise SystemExit
                assert T.contains(P) == bool(exp)
                assert (P in T) == bool(exp)
                assert T.count_occurrences_of(P) == len(exp)
print("C01 ok", n, time.time()-t0)

from permuta import *
b = BivincularPatt(Perm((0,1)), [1], [])
h1 = hash(b)
keep = [super(BivincularPatt, b) for _ in range(50)]
h2 = hash(b)
print(h1, h2, h1 == h2)
d = {b: 1}
keep2 = [super(BivincularPatt, b) for _ in range(50)]
print(b in d)

"""C16 - the 'finitely many simples' verdict matches the class's actual simples."""
import argparse
import contextlib
import io
import itertools

from hypothesis import strategies as st

from permuta import Av, Perm
from permuta import cli as pcli
from permuta.enumeration_strategies.finitely_many_simples import FinitelyManySimplesStrategy
from permuta.permutils.pin_words import PinWords as PW

from .. import engine, gen
from .. import oracle as ref
from .. import pin_ref as pin
from ..engine import BAD, OK
from . import c15

META = {
    "level": "exploration",
    "rule": (
        "generated bases of 1-4 permutations of length 2-4 (5 thorough) assembled from random permutations, the "
        "oriented members of the three explicit chains of simple permutations (parallel alternation, two wedge "
        "simples), boundary classes (the basis of each oriented chain's closure, derived by brute force from the chain, exact or tweaked by one element), one-point deletions of chain members (so that classes lie between families), monotone pairs and pin "
        "permutations; every order/repetition variant and the eight symmetric images; exhaustive: all bases of one "
        "permutation of length <= 4, all pairs of length <= 3 and all pairs (length 3, length 4). Oracle: (i) all entry points agree and are "
        "invariant; (ii) verdict 'infinite' => simples of Av(B) exist in one of every two consecutive lengths 4..N "
        "(Schmerl-Trotter; N = 8 quick, 9 thorough; enumeration via Av, simplicity via the reference interval test); "
        "(iii) verdict 'finite' => every oriented explicit chain is hit by a basis element, and the words of M "
        "avoiding the basis are bounded (semantic confirmation as in C15). Non-trivial: the class contains a simple "
        "permutation of length >= 4, or the verdict is 'finite' with a non-empty language of avoiding pin sequences. "
        "Distinct = basis content."
    ),
    "assumptions": [
        "(ii) can refute 'infinite' only if the simples die out by length N; (iii) can refute 'finite' only through the chains it constructs and the pin sequences; both are consequences of theorems, neither can raise a false alarm",
        "enumeration of Av(B) up to N uses the library's Av (decided by C02), cross-checked against the brute-force model up to length 6",
        "the converse 'special-infinite => some explicit chain avoids B' relies on the published classification being complete; it is only tallied (label special_infinite_unexplained), never reported",
    ],
    "trusted_base": ["Av.of_length for lengths 7-9 (C02)", "PinWords DFA language (C15) for the bound l*"],
}


# ------------------------------------------------------------------ explicit chains of simples
def wedge(k):
    return tuple(range(0, 2 * k, 2)) + tuple(range(2 * k - 1, 0, -2))


def ins(t, pos, val):
    return tuple(v + (v >= val) for v in t[:pos]) + (val,) + tuple(v + (v >= val) for v in t[pos:])


FAMILIES = {
    "par": lambda k: tuple(range(1, 2 * k, 2)) + tuple(range(0, 2 * k, 2)),
    "w1": lambda k: ins(wedge(k), 0, 2 * k - 1),
    "w2": lambda k: ins(wedge(k), k, 0),
}
KMAX = 8
_CHAINS = None


def chains():
    global _CHAINS
    if _CHAINS is None:
        _CHAINS = {
            (name, g): {k: ref.sym_perm(g, f(k)) for k in range(2, KMAX + 1)} for name, f in FAMILIES.items() for g in ref.SYMS
        }
    return _CHAINS


def selftest():
    for key, c in chains().items():
        for k in range(3, KMAX + 1):
            if not ref.is_simple(c[k]):
                raise engine.HarnessError(f"chain {key} member {k} is not simple")
        for k in range(2, KMAX):
            if not ref.contains(c[k + 1], c[k]):
                raise engine.HarnessError(f"chain {key} is not increasing at {k}")
    # stabilisation: beta embeds in some member iff it embeds in member |beta|+1
    for n in range(1, 5):
        for b in ref.perms(n):
            for key, c in chains().items():
                k0 = n + 1
                vals = {ref.contains(c[k], b) for k in range(k0, min(k0 + 3, KMAX + 1))}
                if len(vals) != 1:
                    raise engine.HarnessError(f"chain {key}: embedding of {b} does not stabilise at {k0}")


def _simples_by_length(perms, nmax):
    av = Av([Perm(p) for p in perms])
    res = {}
    for n in range(nmax + 1):
        level = [tuple(t) for t in av.of_length(n)]
        if n <= 6 and sorted(level) != sorted(ref.av(perms, n)):
            raise engine.HarnessError("Av.of_length disagrees with the brute-force model (C02's concern)")
        res[n] = sum(1 for t in level if ref.is_simple(t)) if n >= 4 else None
    return res


def _cli(arg):
    from ..lib import run_cli

    return run_cli(["simple", arg])


def check_basis(case):
    perms = [tuple(p) for p in case["perms"]]
    nmax = case.get("nmax", 8)
    P = [Perm(p) for p in perms]
    verdict = PW.has_finite_simples(P)
    # ---- (i) entry points agree, invariance
    by_len = sorted(P, key=lambda q: (len(q), tuple(q)))
    zigzag = [by_len[i // 2] if i % 2 == 0 else by_len[-1 - i // 2] for i in range(len(by_len))]  # lengths interleaved
    variants = [list(P), list(reversed(P)), P + P[:1], tuple(P), set(P)]
    if len(P) >= 3:
        variants += [by_len, list(reversed(by_len)), zigzag]
    for var in variants:
        if PW.has_finite_simples(var) != verdict:
            return BAD("order_or_container_dependent", {"basis": [list(p) for p in perms]})
    if PW.has_finite_simples(P, check_all=True) != verdict:
        return BAD("check_all_changes_verdict", {"basis": [list(p) for p in perms]})
    others = {
        "Av.has_finitely_many_simples": Av(P).has_finitely_many_simples(),
        "FinitelyManySimplesStrategy.applies": FinitelyManySimplesStrategy(P).applies(),
        "Strategy(reversed)": FinitelyManySimplesStrategy(reversed(P)).applies(),
    }
    if all(1 <= len(p) <= 9 for p in perms):
        out = _cli("_".join("".join(map(str, p)) for p in perms))
        if ("has finitely many simples" in out) == ("has infinitely many simples" in out):
            return BAD("cli_output_unreadable", {"out": out})
        others["cli"] = "has finitely many simples" in out
    for name, val in others.items():
        if val != verdict:
            return BAD("entry_points_disagree", {"basis": [list(p) for p in perms], "PinWords.has_finite_simples": verdict, name: val})
    if case.get("symmetries", True):
        for g in ref.SYMS[1:]:
            img = [Perm(ref.sym_perm(g, p)) for p in perms]
            if PW.has_finite_simples(img) != verdict:
                return BAD("not_symmetry_invariant", {"basis": [list(p) for p in perms], "symmetry": g, "verdict": verdict})
    # ---- (i') the three component verdicts, each against its own explicit chains: a family of
    # special simples is finite for the class iff every one of its eight symmetric chains has a
    # (hence every later) member containing a basis element.  (My chain "w2" - the new point in the
    # middle of the wedge - is what the library calls type 1, "w1" - the new point in front - type 2.)
    k0 = max(len(p) for p in perms) + 1
    if 2 <= k0 <= KMAX and all(len(p) >= 1 for p in perms):
        for fam, fn in (("par", PW.has_finite_alternations), ("w2", PW.has_finite_wedges_type_1), ("w1", PW.has_finite_wedges_type_2)):
            want = all(any(ref.contains(c[k0], b) for b in perms) for (name, _g), c in chains().items() if name == fam)
            got = fn(P)
            if got != want:
                return BAD("component_" + fn.__name__, {"basis": [list(p) for p in perms], "got": got, "want": want})
        want_special = all(any(ref.contains(c[k0], b) for b in perms) for c in chains().values())
        if PW.has_finite_special_simples(P) != want_special:
            return BAD("component_has_finite_special_simples", {"basis": [list(p) for p in perms], "got": PW.has_finite_special_simples(P), "want": want_special})
    labels = ["finite" if verdict else "infinite"]
    nt = False
    # ---- (ii) infinite => simples in one of every two consecutive lengths
    simples = _simples_by_length(perms, nmax)
    if any(simples[n] for n in range(4, nmax + 1)):
        nt = True
        labels.append("has_simples")
    if not verdict:
        for n in range(4, nmax):
            if simples[n] == 0 and simples[n + 1] == 0:
                return BAD("infinite_but_simples_die_out", {"basis": [list(p) for p in perms], "simples_by_length": {k: v for k, v in simples.items() if v is not None}})
        special = PW.has_finite_special_simples(P)
        pinfin = PW.has_finite_pinperms(P)
        if not special:
            labels.append("infinite_special")
            k0 = max(len(p) for p in perms) + 1
            explained = any(all(ref.avoids_all(c[k], perms) for k in range(k0, min(k0 + 3, KMAX + 1))) for c in chains().values()) if k0 + 2 <= KMAX else None
            if explained is False:
                labels.append("special_infinite_unexplained")
        if not pinfin:
            labels.append("infinite_pin")
    # ---- (iii) finite => explicit chains are hit, pin sequences bounded
    if verdict:
        k0 = max(len(p) for p in perms) + 1
        if k0 + 2 <= KMAX:
            for key, c in chains().items():
                if all(ref.avoids_all(c[k], perms) for k in range(k0, k0 + 3)):
                    return BAD("finite_but_chain_of_simples_avoids_basis", {"basis": [list(p) for p in perms], "chain": list(key), "members": [list(c[k]) for k in range(k0, k0 + 2)]})
        dfa = PW.make_dfa_for_basis(P)
        if c15._find_pump(dfa) is not None:  # pylint: disable=protected-access
            return BAD("finite_but_unbounded_pin_sequences", {"basis": [list(p) for p in perms]})
        lstar = c15._longest_rejected(dfa)  # pylint: disable=protected-access
        if lstar >= 2:
            nt = True
            labels.append("finite_with_pin_sequences")
        if lstar + 1 <= 10:
            for w in pin.m_language(max(lstar + 1, 2)):
                if not c15.sem_accepts([list(p) for p in perms], w):
                    return BAD("finite_but_longer_pin_sequence_avoids", {"basis": [list(p) for p in perms], "word": w})
            labels.append("finite_pin_confirmed")
        else:
            labels.append("finite_pin_unconfirmed")
    return OK(nt, *labels)


def check_long_element(case):
    """Bases with an element of 7 points (sums / skew sums of shorter pin permutations): the
    routes must agree, and a class of polynomial growth (decided by C13's structure theorem,
    evaluated here with the reference model) has finitely many simples.  One evaluation costs
    most of a minute (all pin words of length 7), so only a handful are run."""
    from .c13 import o_polynomial

    perms = [tuple(p) for p in case["perms"]]
    P = [Perm(p) for p in perms]
    verdict = PW.has_finite_simples(P)
    others = {"Av.has_finitely_many_simples": Av(P).has_finitely_many_simples()}
    if case.get("all_routes"):
        others["FinitelyManySimplesStrategy.applies"] = FinitelyManySimplesStrategy(P).applies()
        others["reversed_listing"] = PW.has_finite_simples(list(reversed(P)))
    for name, val in others.items():
        if val != verdict:
            return BAD("long_element_entry_points_disagree", {"basis": [list(p) for p in perms], "PinWords.has_finite_simples": verdict, name: val})
    if o_polynomial(perms) and not verdict:
        return BAD("long_element_polynomial_class_infinite_simples", {"basis": [list(p) for p in perms]})
    return OK(True, "long_element_finite" if verdict else "long_element_infinite")


CHECKS = {"basis": check_basis, "long_element": check_long_element}

# classes of polynomial growth whose last surviving pin sequences are killed by a decomposable
# element of 7 points (the first two) and relatives
LONG_BASES = [
    [[0, 1, 2], [3, 2, 1, 4, 0], [6, 4, 5, 3, 2, 1, 0]],
    [[2, 1, 0], [2, 3, 0, 1, 4], [0, 1, 4, 2, 5, 3, 6]],
    [[0, 1, 3, 2], [2, 1, 0, 3], [5, 3, 6, 4, 2, 0, 1]],
    [[3, 0, 1, 2], [3, 2, 1, 0], [1, 0, 4, 2, 6, 3, 5]],
]


# ------------------------------------------------------------------ generators
_POOL = None


def pool(max_len):
    """short members of the chains and their one-point deletions, all orientations"""
    global _POOL
    if _POOL is None:
        s = set()
        for c in chains().values():
            for k in (2, 3):
                t = c[k]
                if len(t) <= 5:
                    s.add(t)
                for i in range(len(t)):
                    d = ref.delete_point(t, i)
                    if 2 <= len(d) <= 5:
                        s.add(d)
                        for j in range(len(d)):
                            e = ref.delete_point(d, j)
                            if 2 <= len(e) <= 5:
                                s.add(e)
        _POOL = sorted(s, key=ref.perm_key)
    return [p for p in _POOL if len(p) <= max_len]


_CLOSURE = {}


def closure_basis(key, max_len=4):
    """minimal permutations (length <= max_len) that do not embed in the chain: the basis (up to
    that length) of the chain's downward closure, derived by brute force from the chain itself"""
    if (key, max_len) not in _CLOSURE:
        c = chains()[key]
        non = [p for p in ref.perms_upto(max_len, 1) if not ref.contains(c[min(len(p) + 1, KMAX)], p)]
        _CLOSURE[(key, max_len)] = [p for p in non if not any(q != p and ref.contains(p, q) for q in non)]
    return _CLOSURE[(key, max_len)]


def closure_members(key, max_len=4):
    c = chains()[key]
    return [p for p in ref.perms_upto(max_len, 2) if ref.contains(c[min(len(p) + 1, KMAX)], p)]


@st.composite
def boundary_cases(draw, max_len, nmax):
    """classes on the boundary: exactly the closure of one oriented chain, or slightly more / less"""
    key = draw(st.sampled_from(sorted(chains())))
    basis = [list(p) for p in closure_basis(key, 4)]
    tweak = draw(st.sampled_from(["exact", "exact", "add_member", "extend_one", "drop_one"]))
    if tweak == "add_member":
        basis.append(list(draw(st.sampled_from(closure_members(key, max_len)))))
    elif tweak == "extend_one":
        i = draw(st.integers(0, len(basis) - 1))
        b = basis[i]
        if len(b) < 5:
            v, j = draw(st.integers(0, len(b))), draw(st.integers(0, len(b)))
            ext = [w + 1 if w >= v else w for w in b]
            ext.insert(j, v)
            basis[i] = ext
    elif tweak == "drop_one" and len(basis) > 1:
        basis.pop(draw(st.integers(0, len(basis) - 1)))
    return {"perms": basis, "nmax": nmax, "symmetries": draw(st.integers(0, 3)) == 0}


@st.composite
def basis_cases(draw, max_len, nmax):
    if draw(st.integers(0, 2)) == 0:
        return draw(boundary_cases(max_len, nmax))
    if draw(st.integers(0, 3)) == 0:
        # an element without pin words (the smallest have 6 points) listed before a pin permutation
        # of 6 points that may be essential; two short elements keep alternations and wedges finite
        from .c15 import non_pin_perms, pin_perms

        q = draw(st.sampled_from(non_pin_perms(6)))
        later = [r for r in pin_perms(6) if r > q] or pin_perms(6)
        x = draw(st.sampled_from(later))
        if draw(st.integers(0, 3)) == 0:
            a, b = draw(st.sampled_from([[0, 1, 2], [2, 1, 0]])), list(draw(gen.perm_of(4)))
        else:
            a, b = [0, 1, 2], [0, 3, 2, 1]  # leaves finitely many alternations and wedge simples
        g = draw(st.sampled_from(ref.SYMS))
        basis = [list(ref.sym_perm(g, tuple(t))) for t in (a, b, q, x)]
        return {"perms": basis, "nmax": min(nmax, 8), "symmetries": False}
    if draw(st.integers(0, 3)) == 0:
        # every element essential: an increasing and a decreasing permutation of the same length
        # with a third, longer or shorter, permutation listed between them (a finite class; without
        # either monotone element unboundedly long pin sequences survive)
        a = draw(st.integers(3, 4))
        other = list(draw(gen.perms(2, min(max_len, 5)).filter(lambda q: len(q) != a)))
        return {"perms": [list(range(a)), other, list(range(a - 1, -1, -1))], "nmax": nmax, "symmetries": False}
    k = draw(st.integers(1, 4))
    perms = []
    for _ in range(k):
        mode = draw(st.sampled_from(["pool", "pool", "pool", "random", "monotone", "pin"]))
        if mode == "pool":
            perms.append(list(draw(st.sampled_from(pool(max_len)))))
        elif mode == "random":
            perms.append(list(draw(gen.perms(2, max_len))))
        elif mode == "monotone":
            n = draw(st.integers(2, max_len))
            perms.append(list(range(n)) if draw(st.booleans()) else list(range(n - 1, -1, -1)))
        else:
            n = draw(st.integers(2, max_len))
            perms.append(list(draw(st.sampled_from(sorted(pin.words_of_perm_table(n))))))
    return {"perms": perms, "nmax": nmax}


def shard_exhaustive(acc, shard, nshards, nmax):
    i = 0
    singles = [list(p) for p in ref.perms_upto(4, 2)]
    small = [list(p) for p in ref.perms_upto(3, 2)]
    cases = [[p] for p in singles] + [[a, b] for a, b in itertools.combinations(small, 2)]
    # every pair (length 3, length 4): classes where one short pattern leaves exactly one family alive
    threes = [list(p) for p in ref.perms(3)]
    fours = [list(p) for p in ref.perms(4)]
    cases += [[a, b] for a in threes for b in fours]
    # the 24 boundary classes: closure of each oriented explicit chain (basis derived from the chain)
    cases = [[list(p) for p in closure_basis(key, 4)] for key in sorted(chains())] + cases
    for perms in cases:
        if i % nshards == shard:
            big = len(perms) == 2 and max(len(p) for p in perms) == 4
            acc.record("basis", check_basis, {"perms": perms, "nmax": min(nmax, 7) if big else nmax, "symmetries": False})
        i += 1


def shard_long(acc, shard, nshards, count):
    for i, basis in enumerate(LONG_BASES[:count]):
        if (nshards - 1 - i) % nshards == shard:
            acc.record("long_element", check_long_element, {"perms": basis, "all_routes": count > 1})


def shard_generated(acc, shard, nshards, n, max_len, nmax):
    count = 1 if n < 20 else 4
    shard_long(acc, shard, nshards, count)
    if shard >= nshards - count and nshards > count:
        return  # the last shards are spent on the long elements (about a minute each)
    engine.hyp_run(acc, "basis", check_basis, basis_cases(max_len, nmax), n, shard)


def run(acc, tier):
    if tier == "quick":
        engine.pmap(acc, shard_exhaustive, extra=(8,))
        engine.pmap(acc, shard_generated, extra=(8, 4, 8))
    else:
        engine.pmap(acc, shard_exhaustive, extra=(9,))
        engine.pmap(acc, shard_generated, extra=(150, 5, 9))

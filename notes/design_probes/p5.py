import itertools, random
from ref import *
from permuta import *
random.seed(2)
def av_set(patts, N=5):
    out=set()
    for n in range(N+1):
        for t in perms(n):
            T=Perm(t)
            if all(not T.contains(p) for p in patts): out.add(t)
    return out
# classical
bad=0
for trial in range(400):
    k = random.randint(1,4)
    ps = [Perm(random.sample(range(l),l)) for l in [random.randint(1,4) for _ in range(k)]]
    b0 = Basis(*ps)
    for perm_order in itertools.islice(itertools.permutations(ps), 6):
        b = Basis(*perm_order, *perm_order[:1])
        assert b == b0, (ps, b, b0)
    assert Basis(*b0) == b0
    assert all(not (x!=y and x.contains(y)) for x in b0 for y in b0)
    assert av_set(ps,5)==av_set(b0,5)
print("classical basis ok")
# mesh
fails = {}
def rand_mesh():
    l = random.randint(1,2); p = Perm(random.sample(range(l),l))
    c = random.random()
    if c<0.35: return p
    if c<0.7: return MeshPatt.unrank(p, random.getrandbits((l+1)**2) & random.getrandbits((l+1)**2))
    if c<0.8: return BivincularPatt(p, [i for i in range(l+1) if random.random()<0.3],[i for i in range(l+1) if random.random()<0.3])
    if c<0.9: return VincularPatt(p, [i for i in range(l+1) if random.random()<0.3])
    return CovincularPatt(p, [i for i in range(l+1) if random.random()<0.3])
for trial in range(3000):
    k = random.randint(1,3)
    ps = [rand_mesh() for _ in range(k)]
    if not any(isinstance(p, MeshPatt) for p in ps): continue
    results = []
    for perm_order in itertools.permutations(ps):
        try:
            b = MeshBasis(*perm_order)
            results.append(('ok', tuple((type(x).__name__, x.pattern, tuple(sorted(x.shading))) for x in b)))
        except Exception as e:
            results.append(('exc', type(e).__name__))
    kinds = set(results)
    if any(v[0]=='exc' for v in kinds):
        fails.setdefault('exception',[]).append((ps, kinds)); continue
    if len(kinds)>1:
        fails.setdefault('order-dependent',[]).append((ps, kinds)); continue
    b = MeshBasis(*ps)
    if any(x!=y and x.contains(y) for x in b for y in b):
        fails.setdefault('non-minimal',[]).append((ps,b)); continue
    if av_set(ps,5)!=av_set(b,5):
        fails.setdefault('class-changed',[]).append((ps,b)); continue
    if MeshBasis(*b)!=b:
        fails.setdefault('not-fixed-point',[]).append((ps,b))
for k,v in fails.items():
    print(k, len(v)); print('   e.g.', v[0])

import time, io, contextlib
from permuta import *
from permuta.bisc import read_bisc_file
from permuta.bisc import perm_properties as pp
names={'Baxter':pp.baxter,'SimSun':pp.simsun,'West_2_stack_sortable':Perm.west_2_stack_sortable,'av_231_and_mesh':pp.av_231_and_mesh,'dihedral':pp.dihedral,'forest_like':pp.forest_like,'in_alternating_group':pp.in_alternating_group,'quick_sortable':Perm.quick_sortable,'smooth':pp.smooth,'stack_sortable':Perm.stack_sortable,'yt_perm_avoids_22':pp.yt_perm_avoids_22,'yt_perm_avoids_32':pp.yt_perm_avoids_32}
t0=time.time()
for name,f in names.items():
    g=read_bisc_file(f"permuta/resources/bisc/{name}_good_len8"); b=read_bisc_file(f"permuta/resources/bisc/{name}_bad_len8")
    ok=True
    for n in range(9):
        G=set(g.get(n,[])); B=set(b.get(n,[]))
        allp=set(Perm.of_length(n))
        if G|B!=allp or G&B or len(G)!=len(g.get(n,[])) or len(B)!=len(b.get(n,[])): ok=False; print(name,n,"not partition", len(G),len(B),len(allp))
        wrong=[p for p in allp if (p in G)!=bool(f(p))]
        if wrong: ok=False; print(name,n,"mismatch",len(wrong),wrong[:3])
    print(name, sorted(g.keys()), ok, round(time.time()-t0,1), flush=True)
for name in ['SimSun','av_231_and_mesh']:
    g=read_bisc_file(f"permuta/resources/bisc/{name}_good_len9"); b=read_bisc_file(f"permuta/resources/bisc/{name}_bad_len9")
    print(name,'len9', sorted(g.keys()), [len(g[k]) for k in sorted(g)], b)

from permuta import *
m = MeshPatt(Perm((0,)), [(0,0),(0,1),(1,0),(1,1)])
A = Av([m])
print(A.enumeration(4), list(A.first(5)))
m2 = MeshPatt(Perm((0,1)), [(x,y) for x in range(3) for y in range(3)])
A2 = Av([m2, Perm((1,0))])
print(A2.enumeration(5), list(A2.first(6)))
# up_to_length etc
print(list(Av([Perm((0,1))]).first(10)))
# is_subclass
print(Av([Perm((0,1,2))]).is_subclass(Av([Perm((0,1))])), Av([Perm((0,1))]).is_subclass(Av([Perm((0,1,2))])))

"""Tiny traced workload used by C07's self-test of the schedule-owning harness."""


def bump(box, lock):
    if lock is not None:
        with lock:
            val = box[0]
            val = val + 1
            box[0] = val
    else:
        val = box[0]
        val = val + 1
        box[0] = val
    return box[0]

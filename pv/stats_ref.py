"""Independent definitions of permutation statistics (no permuta import)."""
import itertools
import math

from . import oracle as ref


def inversions(p):
    return [(i, j) for i in range(len(p)) for j in range(i + 1, len(p)) if p[i] > p[j]]


def non_inversions(p):
    return [(i, j) for i in range(len(p)) for j in range(i + 1, len(p)) if p[i] < p[j]]


def descents(p, step=None):
    return [i for i in range(len(p) - 1) if (p[i] > p[i + 1] if step is None else p[i] - p[i + 1] == step)]


def ascents(p, step=None):
    return [i for i in range(len(p) - 1) if (p[i] < p[i + 1] if step is None else p[i + 1] - p[i] == step)]


def peaks(p):
    return [i for i in range(1, len(p) - 1) if p[i - 1] < p[i] > p[i + 1]]


def valleys(p):
    return [i for i in range(1, len(p) - 1) if p[i - 1] > p[i] < p[i + 1]]


def cycles(p):
    seen, res = set(), []
    for i in range(len(p)):
        if i in seen:
            continue
        cyc, j = [], i
        while j not in seen:
            seen.add(j)
            cyc.append(j)
            j = p[j]
        res.append(cyc)
    return res


def ltrmin(p):
    return [i for i in range(len(p)) if all(p[j] > p[i] for j in range(i))]


def ltrmax(p):
    return [i for i in range(len(p)) if all(p[j] < p[i] for j in range(i))]


def rtlmin(p):
    return [i for i in range(len(p)) if all(p[j] > p[i] for j in range(i + 1, len(p)))]


def rtlmax(p):
    return [i for i in range(len(p)) if all(p[j] < p[i] for j in range(i + 1, len(p)))]


def fixed_points(p):
    return [i for i, v in enumerate(p) if i == v]


def strong_fixed_points(p):
    return [i for i, v in enumerate(p) if i == v and all(p[j] < v for j in range(i)) and all(p[j] > v for j in range(i + 1, len(p)))]


def order(p):
    """least k >= 1 with p^k = identity: by iterating powers (the definition) while that is
    short, else as the lcm of the orbit lengths (orbits followed point by point)"""
    n = len(p)
    ident = tuple(range(n))
    q, k = tuple(p), 1
    while q != ident and k < 2000:
        q = tuple(p[v] for v in q)
        k += 1
    if q == ident:
        return k
    import math

    seen, res = set(), 1
    for start in range(n):
        if start in seen:
            continue
        length, v = 0, start
        while v not in seen:
            seen.add(v)
            v = p[v]
            length += 1
        res = res * length // math.gcd(res, length)
    return res


def longest_run(p, up=True):
    best = cur = 1 if p else 0
    for i in range(1, len(p)):
        if (p[i] > p[i - 1]) == up:
            cur += 1
        else:
            cur = 1
        best = max(best, cur)
    return best


def longest_runs(p, up=True):
    """(length, start indices) of the longest maximal runs"""
    n = len(p)
    if n == 0:
        return (0, [])
    runs = []
    s = 0
    for i in range(1, n + 1):
        if i == n or (p[i] > p[i - 1]) != up:
            runs.append((s, i - s))
            s = i
    m = max(length for _, length in runs)
    return (m, [st for st, length in runs if length == m])


def depth(p):
    return sum(max(0, v - i) for i, v in enumerate(p))


def max_drop(p):
    return max([v - i for i, v in enumerate(p)] + [0])


def is_prime(n):
    if n < 2:
        return False
    d = 2
    while d * d <= n:
        if n % d == 0:
            return False
        d += 1
    return True


def column_sum_primes(p):
    return sum(1 for i, v in enumerate(p) if is_prime((i + 1) + (v + 1)))


def holeyness(p):
    n = len(p)

    def blocks(s):  # number of maximal runs of consecutive integers
        return sum(1 for x in s if x + 1 not in s)

    best = None
    for r in range(n + 1):
        for comb in itertools.combinations(range(n), r):
            s = set(comb)
            val = blocks({p[i] for i in s}) - blocks(s)
            best = val if best is None else max(best, val)
    return best


def stack_pass(p):
    stack, out = [], []
    for v in p:
        while stack and stack[-1] < v:
            out.append(stack.pop())
        stack.append(v)
    while stack:
        out.append(stack.pop())
    return tuple(out)


def pop_stack_pass(p):
    stack, out = [], []
    for v in p:
        if stack and stack[-1] < v:
            while stack:
                out.append(stack.pop())
        stack.append(v)
    while stack:
        out.append(stack.pop())
    return tuple(out)


def passes(p, f):
    cnt, q = 0, tuple(p)
    ident = tuple(range(len(p)))
    while q != ident:
        q = f(q)
        cnt += 1
        if cnt > 10 * len(p) + 10:
            raise RuntimeError("device does not sort")
    return cnt


def cyclic_peaks(p):
    return [i for i, x in enumerate(p) if i < x > p[x]]


def cyclic_valleys(p):
    return [i for i, x in enumerate(p) if i > x < p[x]]


def double_excedances(p):
    return [i for i, x in enumerate(p) if i < x < p[x]]


def double_drops(p):
    return [i for i, x in enumerate(p) if i > x > p[x]]


def major_index(p):
    return sum(i + 1 for i in descents(p))


def layers(p):
    """rtlmax / ltrmin layer decomposition: positions relative to the remaining points."""
    rem = list(p)
    res = []
    while rem:
        layer = sorted(set(ltrmin(rem)) | set(rtlmax(rem)))
        res.append(layer)
        rem = [v for i, v in enumerate(rem) if i not in set(layer)]
    return res


def layers_defect_model(p):
    """F16: left-to-right minima of the remaining (not re-standardised) values are searched
    below the initial threshold len(remaining)."""
    rem = list(p)
    res = []
    while rem:
        thr = len(rem)
        lm = []
        for i, v in enumerate(rem):
            if v < thr:
                thr = v
                lm.append(i)
        layer = sorted(set(lm) | set(rtlmax(rem)))
        res.append(layer)
        rem = [v for i, v in enumerate(rem) if i not in set(layer)]
    return res


def maximal_decreasing_run(p):
    """largest k such that n-1, n-2, ..., n-k occur from left to right"""
    n = len(p)
    pos = ref.inverse(p)
    k = 0
    while k < n and (k == 0 or pos[n - 1 - k] > pos[n - k]):
        k += 1
    return k


def min_gapsize(p):
    return min(abs(i - j) + abs(p[i] - p[j]) for i in range(len(p)) for j in range(i + 1, len(p)))


# name -> function, for the statistics with an independent ("strong") definition
STRONG = {
    "Number of inversions": lambda p: len(inversions(p)),
    "Number of non-inversions": lambda p: len(non_inversions(p)),
    "Major index": major_index,
    "Number of descents": lambda p: len(descents(p)),
    "Number of ascents": lambda p: len(ascents(p)),
    "Number of peaks": lambda p: len(peaks(p)),
    "Number of valleys": lambda p: len(valleys(p)),
    "Number of cycles": lambda p: len(cycles(p)),
    "Number of left-to-right minimas": lambda p: len(ltrmin(p)),
    "Number of left-to-right maximas": lambda p: len(ltrmax(p)),
    "Number of right-to-left minimas": lambda p: len(rtlmin(p)),
    "Number of right-to-left maximas": lambda p: len(rtlmax(p)),
    "Number of fixed points": lambda p: len(fixed_points(p)),
    "Order": order,
    "Longest increasing subsequence": ref.lis,
    "Longest decreasing subsequence": ref.lds,
    "Depth": depth,
    "Maximum drop size": max_drop,
    "Number of primes in the column sums": column_sum_primes,
    "Holeyness of a permutation": holeyness,
    "Number of stack-sorts needed": lambda p: passes(p, stack_pass),
    "Number of pop-stack-sorts needed": lambda p: passes(p, pop_stack_pass),
    "Number of pinnacles": lambda p: len(peaks(p)),
    "Number of cyclic peaks": lambda p: len(cyclic_peaks(p)),
    "Number of cyclic valleys": lambda p: len(cyclic_valleys(p)),
    "Number of double excedance": lambda p: len(double_excedances(p)),
    "Number of double drops": lambda p: len(double_drops(p)),
}
def bounces(p):
    """The bounce statistic as the documentation of count_bounces (FindStat St000133) describes
    it, on positions: b_0 = 1 + position of the value 0, b_(k+1) = 1 + the largest position
    among the values 0..b_k, until b reaches n; the statistic is the sum of n - b_k."""
    n = len(p)
    if n == 0:
        return 0
    pos = [0] * n
    for i, v in enumerate(p):
        pos[v] = i
    total, b = 0, pos[0] + 1
    while True:
        total += n - b
        if b >= n:
            return total
        b = 1 + max(pos[v] for v in range(b + 1))


STRONG.update(
    {
        "Number of bounces": bounces,
        # docstrings: a double ascent (descent) that is also a left-to-right / right-to-left maximum / minimum
        "Number of foremaxima": lambda p: len(set(ascents(p, 2)) & set(ltrmax(p))),
        "Number of afterminima": lambda p: len(set(ascents(p, 2)) & set(rtlmin(p))),
        "Number of aftermaxima": lambda p: len(set(descents(p, 2)) & set(rtlmax(p))),
        "Number of foreminima": lambda p: len(set(descents(p, 2)) & set(ltrmin(p))),
    }
)
WEAK = ()
# F6 defect model: the two "longest ... subsequence" statistics return the longest run
F6_MODEL = {
    "Longest increasing subsequence": lambda p: longest_run(p, True),
    "Longest decreasing subsequence": lambda p: longest_run(p, False),
}

import random, time
from permuta import *
from permuta.permutils import *
random.seed(18)
fib=[1,1,1,2,3,5,8,13,21,34,55]  # fib[n] for n>=1: 1,1,2,3,5 (conservative)
fib2=[1,1,2,3,5,8,13,21,34,55,89] # F_1=1,F_2=2
stats={}; viol2=0
for trial in range(400):
    k=random.randint(1,5)
    B=[Perm(random.sample(range(l),l)) for l in [random.choice([2,3,3,4,4,5]) for _ in range(k)]]
    if random.random()<0.4: B.append(Perm(range(random.randint(2,4))))
    if random.random()<0.4: B.append(Perm(range(random.randint(1,3),-1,-1)))
    A=Av(B); en=A.enumeration(8)
    fin=is_finite(B); pol=is_polynomial(B)
    if fin:
        a=min(len(b) for b in B if b.is_increasing()); d=min(len(b) for b in B if b.is_decreasing())
        assert all(en[n]==0 for n in range((a-1)*(d-1)+1,9)),(B,en)
    else: assert all(e>0 for e in en),(B,en)
    if not pol:
        assert all(en[n]>=fib[n] for n in range(1,9)),(B,en)
        if not all(en[n]>=fib2[n] for n in range(1,9)): viol2+=1
    stats[(fin,pol)]=stats.get((fin,pol),0)+1
print(stats, "stronger-indexing shortfalls:",viol2)

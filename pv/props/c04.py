"""C04 - the eight symmetries act consistently on permutations, patterns and containment."""
import argparse
import contextlib
import io

from hypothesis import strategies as st

from permuta import MeshPatt, Perm
from permuta import cli as pcli
from permuta import permutils

from .. import engine, gen
from .. import oracle as ref
from ..engine import BAD, OK

META = {
    "level": "exploration",
    "rule": (
        "exhaustive: all permutations up to the tier's bound (every operation, every rotation count in [-9, 9]); "
        "all mesh patterns of length <= 1 and sampled/generated ones up to length 3; generated (mesh pattern, "
        "permutation, symmetry) triples for two-sided equivariance; generated finite sets of permutations for the "
        "set helpers, lex_min and the CLI. Oracle: the eight affine maps of the square applied to the point set "
        "and to cell centres. Non-trivial: the orbit of the object under the oracle's group has size 8. "
        "Distinct = case content."
        " Light equivariance sweep: contains() of the eight images of every (pattern, host) pair of two lengths against the reference; non-trivial there = the host contains the pattern."
    ),
    "assumptions": [
        "rotate(k>0) is clockwise (documented: negative rotates to the left) - checked against the doc examples in the self-test",
        "orbits are obtained by closing under oracle reverse and inverse (generators of the dihedral group)",
    ],
}

LIB_PERM_OPS = {
    "id": lambda p: p,
    "r": lambda p: p.reverse(),
    "c": lambda p: p.complement(),
    "i": lambda p: p.inverse(),
    "rc": lambda p: p.reverse_complement(),
    "rot": lambda p: p.rotate(),
    "rot3": lambda p: p.rotate(-1),
    "anti": lambda p: p.flip_antidiagonal(),
}
LIB_MESH_OPS = {
    "id": lambda m: m,
    "r": lambda m: m.reverse(),
    "c": lambda m: m.complement(),
    "i": lambda m: m.inverse(),
    "rc": lambda m: m.rotate(2),
    "rot": lambda m: m.rotate(),
    "rot3": lambda m: m.rotate(3),
    "anti": lambda m: m.rotate().reverse(),  # derived below in selftest: anti = r . rot ?
}


def selftest():
    # documented examples fix the direction conventions of the oracle
    if ref.sym_perm("rot", (0, 4, 1, 3, 2)) != (4, 2, 0, 1, 3):
        raise engine.HarnessError("oracle rot does not match documented rotate(1)")
    if ref.sym_perm("rot3", (0, 4, 1, 3, 2)) != (1, 3, 4, 2, 0):
        raise engine.HarnessError("oracle rot3 does not match documented rotate(-1)")
    if ref.sym_perm("anti", (1, 2, 3, 0, 4)) != (0, 2, 3, 4, 1):
        raise engine.HarnessError("oracle anti does not match documented flip_antidiagonal")
    if ref.sym_mesh("rot", (0, 2, 1), {(2, 3), (3, 0), (3, 3)}) != ((2, 0, 1), frozenset({(0, 0), (3, 0), (3, 1)})):
        raise engine.HarnessError("oracle mesh rot does not match documented example")
    # group structure of the oracle: orbit sizes divide 8, anti = r after rot (as maps)
    for p in ref.perms(4):
        if 8 % len(ref.orbit_perm(p)):
            raise engine.HarnessError("oracle orbit size does not divide 8")
        if ref.sym_perm("anti", p) != ref.sym_perm("r", ref.sym_perm("rot", p)):
            raise engine.HarnessError("oracle: anti != r . rot")
        if ref.sym_perm("i", p) != ref.inverse(p):
            raise engine.HarnessError("oracle inverse")
        if {ref.sym_perm(g, p) for g in ref.SYMS} != ref.orbit_perm(p):
            raise engine.HarnessError("oracle: eight maps differ from closure orbit")


def _rot_k(name_of_one, p, k, sym):
    """oracle: apply the 90 degree clockwise map k mod 4 times"""
    for _ in range(k % 4):
        p = sym("rot", *p) if isinstance(p, tuple) and len(p) == 2 and isinstance(p[1], frozenset) else sym("rot", p)
    return p


def check_perm_ops(case):
    p = tuple(case)
    P = Perm(p)
    for g, f in LIB_PERM_OPS.items():
        got = f(P)
        want = ref.sym_perm(g, p)
        if tuple(got) != want or not isinstance(got, Perm):
            return BAD("perm_" + g, {"got": list(got), "want": want})
    for alias, g in (("flip_horizontal", "c"), ("flip_vertical", "r"), ("flip_diagonal", "i")):
        if tuple(getattr(P, alias)()) != ref.sym_perm(g, p):
            return BAD("perm_" + alias, {})
    for k in range(-9, 10):
        want = p
        for _ in range(k % 4):
            want = ref.sym_perm("rot", want)
        if tuple(P.rotate(k)) != want:
            return BAD("perm_rotate_k", {"k": k, "got": list(P.rotate(k)), "want": want})
    # dihedral relations stated directly on the library operations
    if P.reverse().reverse() != P or P.complement().complement() != P or P.inverse().inverse() != P:
        return BAD("perm_involution", {})
    if P.rotate().rotate().rotate().rotate() != P or P.rotate(1).rotate(-1) != P:
        return BAD("perm_rotate_order4", {})
    if P.reverse().complement() != P.complement().reverse() or P.reverse_complement() != P.rotate(2):
        return BAD("perm_rc_relations", {})
    if P.inverse().reverse() != P.complement().inverse():  # i r = c i  (as maps: (r after i) = (i after c))
        return BAD("perm_ir_ci_relation", {})
    syms = P.all_syms()
    orbit = ref.orbit_perm(p)
    if len(set(syms)) != len(syms) or {tuple(s) for s in syms} != orbit:
        return BAD("perm_all_syms", {"got": sorted(map(list, syms)), "want": sorted(orbit)})
    return OK(len(orbit) == 8, f"orbit{len(orbit)}")


def check_perm_ops_huge(case):
    """The same symmetry operations on a permutation of a few thousand points, with the
    interpreter's default recursion budget: the operations are defined for every length."""
    from ..lib import with_default_recursion_budget

    status, out = with_default_recursion_budget(lambda: check_perm_ops(case))
    if status == "recursion":
        return BAD("perm_ops_recursion_error", {"length": len(case)})
    if out.status == "bad":
        out.detail = {"length": len(case), "kind": out.kind}
        return out
    return OK(True, "huge", key=str(hash(tuple(case))))


def _mesh(M):
    return (tuple(M.pattern), frozenset(M.shading))


def check_mesh_ops(case):
    p, sh = tuple(case[0]), frozenset(tuple(c) for c in case[1])
    M = MeshPatt(Perm(p), sh)
    for g, f in LIB_MESH_OPS.items():
        if g == "anti":
            continue
        got = f(M)
        want = ref.sym_mesh(g, p, sh)
        if _mesh(got) != want or not isinstance(got, MeshPatt):
            return BAD("mesh_" + g, {"got": repr(got), "want": [list(want[0]), sorted(want[1])]})
    for alias, g in (("flip_horizontal", "c"), ("flip_vertical", "r"), ("flip_diagonal", "i")):
        if _mesh(getattr(M, alias)()) != ref.sym_mesh(g, p, sh):
            return BAD("mesh_" + alias, {})
    for k in range(-9, 10):
        want = (p, sh)
        for _ in range(k % 4):
            want = ref.sym_mesh("rot", *want)
        if _mesh(M.rotate(k)) != want:
            return BAD("mesh_rotate_k", {"k": k, "got": repr(M.rotate(k))})
    if M.reverse().reverse() != M or M.complement().complement() != M or M.inverse().inverse() != M:
        return BAD("mesh_involution", {})
    if M.rotate().rotate().rotate().rotate() != M or M.rotate(1).rotate(-1) != M:
        return BAD("mesh_rotate_order4", {})
    if M.reverse().complement() != M.rotate(2) or M.inverse().reverse() != M.complement().inverse():
        return BAD("mesh_relations", {})
    syms = M.all_syms()
    orbit = ref.orbit_mesh(p, sh)
    if len(set(syms)) != len(syms) or {_mesh(s) for s in syms} != orbit:
        return BAD("mesh_all_syms", {"got": sorted(repr(s) for s in syms), "want_size": len(orbit)})
    return OK(len(orbit) == 8, f"mesh_orbit{len(orbit)}")


def check_equivariance(case):
    (p, sh), t, g = case
    p, t = tuple(p), tuple(t)
    shs = frozenset(tuple(c) for c in sh)
    T = Perm(t)
    truth = ref.mesh_occ(p, shs, t)
    ctruth = ref.occ(p, t)
    gT = LIB_PERM_OPS[g](T)
    # "used": the pattern object has already been searched with (its search table is memoised)
    # before its image is taken - images must not inherit stale search state
    # bivincular-type patterns are mesh patterns too: built from one-shot requirement containers
    # they must behave under the symmetries (and the identity) like the equivalent shading
    k = len(p)
    cols = [x for x in range(k + 1) if all((x, y) in shs for y in range(k + 1))]
    rows = [y for y in range(k + 1) if all((x, y) in shs for x in range(k + 1))]
    if shs and shs == frozenset((x, y) for x in range(k + 1) for y in range(k + 1) if x in cols or y in rows):
        from permuta import BivincularPatt

        for form in ("list", "iter"):
            B = BivincularPatt(Perm(p), cols if form == "list" else iter(cols), rows if form == "list" else (y for y in rows))
            gB = B.rotate().reverse() if g == "anti" else LIB_MESH_OPS[g](B)
            if sorted(B.occurrences_in(T)) != truth or len(list(gB.occurrences_in(gT))) != len(truth) or gT.contains(gB) != bool(truth) or T.contains(B) != bool(truth):
                return BAD("equivariance_bivincular", {"g": g, "form": form, "truth": truth, "direct": sorted(B.occurrences_in(T))})
    for history in ("fresh", "used"):
        M = MeshPatt(Perm(p), shs)
        P = Perm(p)
        if history == "used":
            if sorted(M.occurrences_in(T)) != truth or list(P.occurrences_in(T)) != ctruth:
                return BAD("equivariance_prime_search", {"history": history})
        if g == "anti":
            gM = M.rotate().reverse()
        else:
            gM = LIB_MESH_OPS[g](M)
        got = list(gM.occurrences_in(gT))
        if bool(got) != bool(truth) or gT.contains(gM) != bool(truth) or gT.avoids(gM) == bool(truth):
            return BAD("equivariance_mesh", {"g": g, "history": history, "truth": truth, "image_occurrences": got})
        if len(got) != len(truth):
            return BAD("equivariance_mesh_count", {"g": g, "history": history, "truth": truth, "image_occurrences": got})
        # classical pattern as well
        gP = LIB_PERM_OPS[g](P)
        cgot = list(gP.occurrences_in(gT))
        if len(cgot) != len(ctruth) or gT.contains(gP) != bool(ctruth):
            return BAD("equivariance_classical", {"g": g, "history": history, "truth": ctruth, "image_occurrences": cgot})
        # and the image of the image (back to the start for involutions) still searches correctly
        if g in ("r", "c", "i", "rc", "anti"):
            back = LIB_PERM_OPS[g](gP)
            if list(back.occurrences_in(T)) != ctruth:
                return BAD("equivariance_classical_back", {"g": g, "history": history})
    osz = len(ref.orbit_mesh(p, shs))
    return OK(osz == 8 and bool(ctruth), "equiv_contained" if truth else "equiv_avoided")


def _setkey(perms):
    return tuple(sorted(perms, key=ref.perm_key))


def _min_set(sets):
    return min(sets, key=lambda s: tuple(ref.perm_key(p) for p in s))


def _ref_minimal(perms):
    ps = set(perms)
    return [b for b in ps if not any(a != b and ref.contains(b, a) for a in ps)]


def check_sets(case):
    perms = [tuple(p) for p in case]
    P = [Perm(p) for p in perms]
    helpers = (
        ("rotate_90_clockwise_set", "rot"),
        ("rotate_180_clockwise_set", "rc"),
        ("rotate_270_clockwise_set", "rot3"),
        ("inverse_set", "i"),
        ("reverse_set", "r"),
        ("complement_set", "c"),
        ("antidiagonal_set", "anti"),
    )
    for name, g in helpers:
        got = [tuple(x) for x in getattr(permutils, name)(iter(P))]
        want = [ref.sym_perm(g, p) for p in perms]
        if got != want:
            return BAD("set_" + name, {"got": got, "want": want})
    # all_symmetry_sets: every image, each sorted (multiset images as given)
    want_sets = set()
    for g in ref.SYMS:
        want_sets.add(_setkey([ref.sym_perm(g, p) for p in perms]))
    for container in (list(P), tuple(P), iter(P)):
        got_sets = permutils.all_symmetry_sets(container)
        if {tuple(tuple(x) for x in s) for s in got_sets} != want_sets:
            return BAD("all_symmetry_sets", {"got_size": len(got_sets), "want_size": len(want_sets)})
    want_min = _min_set(want_sets)
    for g in ref.SYMS:
        img = [Perm(ref.sym_perm(g, p)) for p in perms]
        got = permutils.lex_min(img)
        if tuple(tuple(x) for x in got) != want_min:
            return BAD("lex_min", {"g": g, "got": [list(x) for x in got], "want": want_min})
    # CLI: permtools lexmin prints the representative of the (pruned) basis, for every image
    if all(1 <= len(p) <= 9 for p in perms):
        minimal = _ref_minimal(perms)
        cli_sets = {_setkey([ref.sym_perm(g, p) for p in minimal]) for g in ref.SYMS}
        cli_want = "_".join("".join(map(str, p)) for p in _min_set(cli_sets))
        for g in ("id", "rot", "i", "anti"):
            img = [ref.sym_perm(g, p) for p in perms]
            for off in (0, 1):
                arg = "_".join("".join(str(v + off) for v in p) for p in img)
                from ..lib import run_cli

                got_cli = run_cli(["lexmin", arg]).strip()
                if got_cli != cli_want:
                    return BAD("cli_lexmin", {"arg": arg, "got": got_cli, "want": cli_want})
    return OK(len(want_sets) == 8, f"set_orbit{len(want_sets)}")


def check_equiv_light(case):
    """One classical pattern and one host: the eight images answer `contains` alike, and like
    the reference.  Cheap, so every pair of two lengths is swept (a containment shortcut that is
    wrong on one pair in several thousand is rarely wrong on the images of that pair too)."""
    pt, tt = tuple(case[0]), tuple(case[1])
    P, T = Perm(pt), Perm(tt)
    want = ref.contains(tt, pt)
    for g, op in LIB_PERM_OPS.items():
        got = op(T).contains(op(P))
        if got != want:
            return BAD("equiv_light_contains", {"g": g, "pattern": list(pt), "host": list(tt), "got": got, "want": want})
    return OK(want, "light_contained" if want else "light_avoided", key=f"{pt}|{tt}")


def shard_equiv_light(acc, shard, nshards, pairs_of_lengths):
    i = 0
    for a, b in pairs_of_lengths:
        for pt in ref.perms(a):
            for tt in ref.perms(b):
                if i % nshards == shard:
                    acc.record("equiv_light", check_equiv_light, [list(pt), list(tt)])
                i += 1


CHECKS = {"equiv_light": check_equiv_light, "perm_ops_huge": check_perm_ops_huge, "perm_ops": check_perm_ops, "mesh_ops": check_mesh_ops, "equivariance": check_equivariance, "sets": check_sets}


def shard_perms(acc, shard, nshards, max_n):
    for i, p in enumerate(ref.perms_upto(max_n)):
        if i % nshards == shard:
            acc.record("perm_ops", check_perm_ops, list(p))


def shard_mesh_small(acc, shard, nshards, max_k):
    i = 0
    for k in range(max_k + 1):
        cells = [(x, y) for x in range(k + 1) for y in range(k + 1)]
        for p in ref.perms(k):
            for mask in range(1 << len(cells)):
                if i % nshards == shard:
                    sh = [list(c) for j, c in enumerate(cells) if mask >> j & 1]
                    acc.record("mesh_ops", check_mesh_ops, [list(p), sh])
                i += 1


@st.composite
def equiv_cases(draw):
    p, t = draw(gen.planted(3, 7))
    sh = draw(gen.shadings(len(p), draw(st.sampled_from(["sparse", "sparse", "half", "lines", "purelines", "purelines", "empty"]))))
    return [[p, sh], t, draw(st.sampled_from(ref.SYMS))]


def set_cases():
    return st.lists(gen.perms(1, 5), min_size=1, max_size=4).map(lambda ps: [list(p) for p in ps])


def shard_generated(acc, shard, nshards, n_mesh, n_eq, n_sets):
    engine.hyp_run(acc, "perm_ops", check_perm_ops, gen.perms(9, 40).map(list), max(20, n_mesh // 4), shard)
    engine.hyp_run(acc, "perm_ops_huge", check_perm_ops_huge, gen.perms(1200, 2500).map(list), 2 if n_mesh < 2000 else 10, shard)
    engine.hyp_run(acc, "mesh_ops", check_mesh_ops, gen.mesh_patterns(0, 4), n_mesh, shard)
    engine.hyp_run(acc, "equivariance", check_equivariance, equiv_cases(), n_eq, shard)
    engine.hyp_run(acc, "sets", check_sets, set_cases(), n_sets, shard)


# coverage-guided variants of the structured generators (thorough tier, pv/fuzz/target.py hyp:<name>)
FUZZ = {"equivariance": ("equivariance", equiv_cases), "sets": ("sets", set_cases)}


def run(acc, tier):
    engine.pmap(acc, shard_equiv_light, extra=([(4, 6), (5, 6), (5, 7)] if tier == "quick" else [(4, 6), (5, 6), (5, 7), (4, 8), (6, 7), (5, 8)],))
    if tier == "quick":
        engine.pmap(acc, shard_perms, extra=(8,))
        engine.pmap(acc, shard_mesh_small, extra=(1,))
        engine.pmap(acc, shard_generated, extra=(400, 800, 150))
        sub = "all permutations of length <= 8; all mesh patterns of length <= 1"
    else:
        engine.pmap(acc, shard_perms, extra=(9,))
        engine.pmap(acc, shard_mesh_small, extra=(2,))
        engine.pmap(acc, shard_generated, extra=(15000, 30000, 5000))
        engine.fuzz(acc, "hyp:equivariance", CHECKS, 20000, max_len=2048)
        sub = "all permutations of length <= 9; all mesh patterns of length <= 2"
    META["extra_cov"] = {"exhaustive_subdomain": sub}

from pin_ref import decode
from permuta.permutils.pin_words import PinWords as PW
import collections
p2w=collections.defaultdict(set)
for n in range(4):
    for w in PW.pinwords_of_length(n): p2w[decode(w)].add(w)
for w,s in [('1U',(0,1)),('1D',(1,0)),('1U2',(2,0,1))]:
    print(w, decode(w), s, [(u, list(PW.pinword_occurrences(w,u))) for u in sorted(p2w[s]) if PW.pinword_contains(w,u)])
print(PW.quadrant('1U',1), PW.sp_to_m('1U'))

"""C18 - shading-lemma verdicts and point insertion preserve the meaning of mesh patterns."""
import itertools

from hypothesis import strategies as st

from permuta import MeshPatt, Perm

from .. import engine, gen
from .. import oracle as ref
from ..engine import BAD, OK

META = {
    "level": "exploration",
    "rule": (
        "exhaustive: every mesh pattern of length <= 2 (all shadings; quick: all of length <= 1 and every 2nd "
        "shard-slice of length 2), every cell, every adjacent cell pair in both orders, every direction, every "
        "cell_size 1-3; generated: patterns of length 3-4 with sparse/line shadings. Oracle: whenever a test "
        "licenses cells, the sets of permutations of length <= |p|+2 (|p|+3 thorough) containing the pattern "
        "before and after shading must coincide (reference mesh containment); point insertion: t contains the "
        "result iff some reference occurrence has a point (an increasing / decreasing pair) in the cell; the ascii "
        "plot is parsed back by an own parser. Non-trivial: at least one shading was licensed for the pattern, or "
        "the cell of an inserted point has a shaded neighbour. Distinct = case content."
    ),
    "assumptions": [
        "a wrongly licensed shading could need a witness longer than |p|+3; counter-examples to broken side conditions found when probing had length <= |p|+2",
    ],
}

_CONT_CACHE = {}


def containers(p, sh, max_t):
    key = (p, sh, max_t)
    res = _CONT_CACHE.get(key)
    if res is None:
        res = frozenset(t for t in ref.perms_upto(max_t, len(p)) if ref.mesh_contains(t, p, sh))
        if len(_CONT_CACHE) > 20000:
            _CONT_CACHE.clear()
        _CONT_CACHE[key] = res
    return res


def selftest():
    # the shading lemma's classical instance: in 1-2 with the cell north-east of "1" ... sanity of containers
    if containers((0,), frozenset(), 2) != frozenset({(0,), (0, 1), (1, 0)}):
        raise engine.HarnessError("containers self-test")
    txt = MeshPatt(Perm((0, 1, 2)), [(2, 1), (3, 0), (3, 1), (3, 2), (3, 3)]).ascii_plot()
    if parse_plot(" | | |▒\n-+-+-●-\n | | |▒\n-+-●-+-\n | |▒|▒\n-●-+-+-\n | | |▒", 1) != ((0, 1, 2), frozenset({(2, 1), (3, 0), (3, 1), (3, 2), (3, 3)})):
        raise engine.HarnessError("plot parser self-test (documented example)")
    del txt


def parse_plot(text, cs):
    lines = text.split("\n")
    total = len(lines)
    if (total - cs) % (cs + 1):
        raise ValueError("line count does not fit")
    n = (total - cs) // (cs + 1)
    perm = [None] * n
    shading = set()
    pos = 0
    for row in range(n, -1, -1):  # cell rows from the top (y = n) down to y = 0
        for rep in range(cs):
            fields = lines[pos].split("|")
            if len(fields) != n + 1:
                raise ValueError("cell row does not have n+1 fields")
            for x, f in enumerate(fields):
                shaded = "▒" in f
                if f not in ("▒" * cs, " " * cs, ""):
                    raise ValueError("unexpected cell field")
                if f == "" and x != n:
                    raise ValueError("empty field inside")
                if rep == 0:
                    if shaded:
                        shading.add((x, row))
                elif shaded != ((x, row) in shading):
                    raise ValueError("repeated cell lines differ")
            pos += 1
        if row > 0:
            marks = lines[pos].replace("-", "")
            if len(marks) != n or marks.count("●") != 1 or set(marks) - {"+", "●"}:
                raise ValueError("point row malformed")
            if lines[pos] != ("-" * cs).join([""] + list(marks) + [""]):
                raise ValueError("point row spacing")
            perm[marks.index("●")] = row - 1
            pos += 1
    return tuple(perm), frozenset(shading)


def _corner_ok(p, cell, val):
    x, y = cell
    return val in p and p.index(val) in (x - 1, x) and val in (y - 1, y)


def check_lemma(case):
    p, sh = tuple(case["M"][0]), frozenset(tuple(c) for c in case["M"][1])
    extra = case.get("extra", 2)
    k = len(p)
    # replayable mini-history: siblings sharing the shading (other underlying patterns) or the
    # underlying pattern (one cell toggled) are queried first - verdicts must not leak between
    # pattern objects through process-wide state
    if k >= 1:
        for q in [q for q in ref.perms(k) if q != p][:5]:
            MeshPatt(Perm(q), sh).shadable_boxes()
        for c in [(0, 0), (k, k)]:
            MeshPatt(Perm(p), sh ^ {c}).shadable_boxes()
    M = MeshPatt(Perm(p), sh)
    max_t = k + extra
    licensed = 0
    table = {}
    cells = [(x, y) for x in range(k + 1) for y in range(k + 1)]
    base = None
    for c in cells:
        pts = M.can_shade(c)
        if pts:
            licensed += 1
            base = base if base is not None else containers(p, sh, max_t)
            after = containers(p, sh | {c}, max_t)
            if after != base:
                w = sorted(base ^ after, key=ref.perm_key)[0]
                return BAD("can_shade_changes_meaning", {"cell": c, "points": pts, "witness": list(w)})
            if any(not _corner_ok(p, c, v) for v in pts) or len(set(pts)) != len(pts):
                return BAD("can_shade_points", {"cell": c, "points": pts})
            if c in sh:
                return BAD("can_shade_already_shaded", {"cell": c})
        for v in pts:
            table.setdefault(v, []).append((c,))
        x, y = c
        for c2 in ((x + 1, y), (x, y + 1)):
            if c2[0] > k or c2[1] > k:
                continue
            for a, b in ((c, c2), (c2, c)):
                pts2 = M.can_simul_shade(a, b)
                if pts2:
                    licensed += 1
                    base = base if base is not None else containers(p, sh, max_t)
                    after = containers(p, sh | {a, b}, max_t)
                    if after != base:
                        w = sorted(base ^ after, key=ref.perm_key)[0]
                        return BAD("can_simul_shade_changes_meaning", {"cells": [a, b], "points": pts2, "witness": list(w)})
                if (a, b) == (c, c2):
                    for v in pts2:
                        table.setdefault(v, []).append((c, c2))
            if M.can_shade2(c, c2) != M.can_simul_shade(c, c2):
                return BAD("can_shade2_alias", {})
    got = M.shadable_boxes()
    got_norm = {key: sorted(val) for key, val in dict(got).items() if val}
    want_norm = {key: sorted(val) for key, val in table.items()}
    if got_norm != want_norm:
        return BAD("shadable_boxes_table", {"got": got_norm, "want": want_norm})
    for key, entries in got_norm.items():
        for boxes in entries:
            base = base if base is not None else containers(p, sh, max_t)
            if containers(p, sh | set(boxes), max_t) != base:
                return BAD("shadable_boxes_changes_meaning", {"point": key, "boxes": boxes})
    # a bivincular-type object with the same shading is the same mesh pattern: same verdicts
    from ..lib import biv_views

    for kind, B2 in biv_views(p, sh):
        for c in cells:
            if sorted(B2.can_shade(c)) != sorted(M.can_shade(c)):
                return BAD("can_shade_bivincular_object", {"type": kind, "cell": c, "got": B2.can_shade(c), "want": M.can_shade(c)})
        got2 = {key: sorted(val) for key, val in dict(B2.shadable_boxes()).items() if val}
        if got2 != got_norm:
            return BAD("shadable_boxes_bivincular_object", {"type": kind, "got": got2, "want": got_norm})
        if k >= 1:
            free = [c for c in cells if c not in sh][:3]
            for c in free:
                for d in (-1, 0, 1, 2, 3):
                    R2, R1 = B2.add_point(c, d), M.add_point(c, d)
                    if tuple(R2.pattern) != tuple(R1.pattern) or frozenset(R2.shading) != frozenset(R1.shading):
                        return BAD("add_point_bivincular_object", {"type": kind, "cell": c, "dir": d, "got": repr(R2), "want": repr(R1)})
        if B2.ascii_plot() != M.ascii_plot():
            return BAD("ascii_plot_bivincular_object", {"type": kind})
    # shade = union
    some = [c for i, c in enumerate(cells) if i % 3 == 0]
    if MeshPatt(Perm(p), sh).shade(*some).shading != sh | set(some) or M.shade().shading != sh:
        return BAD("shade_union", {})
    return OK(licensed > 0, "licensed" if licensed else "nothing_licensed")


def _with_points(p, pts):
    """permutation obtained from p by adding points; each point = (cell x, cell y, dx, dy) with
    small offsets dx, dy in (0, 1) placing it inside the cell (x, y)"""
    coords = [(float(i), float(v)) for i, v in enumerate(p)]
    for x, y, dx, dy in pts:
        coords.append((x - 1 + dx, y - 1 + dy))
    order = sorted(range(len(coords)), key=lambda i: coords[i][0])
    yrank = {i: r for r, i in enumerate(sorted(range(len(coords)), key=lambda i: coords[i][1]))}
    return tuple(yrank[i] for i in order)


def _witnesses(p, cells, sh=frozenset()):
    """candidate refutations of a licensed shading: the pattern's own permutation with one or
    two extra points - at least one inside a licensed cell, the other in a licensed cell or in
    another unshaded cell sharing (or next to) a row or column with one (the lemma's side
    conditions speak about exactly those lines)"""
    cells = list(cells)
    k = len(p)
    out = []
    near = []
    for x in range(k + 1):
        for y in range(k + 1):
            if (x, y) in sh or (x, y) in cells:
                continue
            if any(abs(x - c[0]) <= 1 or abs(y - c[1]) <= 1 for c in cells):
                near.append((x, y))
    near = near[:14]
    for c in cells:
        out.append(_with_points(p, [(c[0], c[1], 0.5, 0.5)]))
        out.append(_with_points(p, [(c[0], c[1], 0.3, 0.3), (c[0], c[1], 0.6, 0.6)]))
        out.append(_with_points(p, [(c[0], c[1], 0.3, 0.6), (c[0], c[1], 0.6, 0.3)]))
        for d in near:
            for da, db in ((0.3, 0.6), (0.6, 0.3)):
                out.append(_with_points(p, [(c[0], c[1], da, da), (d[0], d[1], db, db)]))
                out.append(_with_points(p, [(c[0], c[1], da, db), (d[0], d[1], db, da)]))
    if len(cells) == 2:
        a, b = cells
        for da, db in ((0.3, 0.6), (0.6, 0.3)):
            out.append(_with_points(p, [(a[0], a[1], da, da), (b[0], b[1], db, db)]))
            out.append(_with_points(p, [(a[0], a[1], da, db), (b[0], b[1], db, da)]))
    return out


def check_lemma_large(case):
    """Patterns of 5-9 points (dense shadings reach more than 64 shaded boxes): the full
    container comparison is out of reach, so every licensed shading is attacked with a bounded
    family of witnesses - the pattern's permutation plus one or two points inside the licensed
    cells.  A witness containing the pattern but not the shaded pattern refutes the verdict."""
    p, sh = tuple(case["M"][0]), frozenset(tuple(c) for c in case["M"][1])
    k = len(p)
    M = MeshPatt(Perm(p), sh)
    licensed = 0
    table = dict(M.shadable_boxes())
    claims = set()
    for entries in table.values():
        for boxes in entries:
            claims.add(tuple(boxes))
    for x in range(k + 1):
        for y in range(k + 1):
            if M.can_shade((x, y)):
                claims.add(((x, y),))
            for c2 in ((x + 1, y), (x, y + 1)):
                if c2[0] <= k and c2[1] <= k:
                    if M.can_simul_shade((x, y), c2) or M.can_simul_shade(c2, (x, y)):
                        claims.add(((x, y), c2))
    for boxes in sorted(claims):
        licensed += 1
        new_sh = sh | set(boxes)
        for t in _witnesses(p, boxes, sh):
            if ref.mesh_contains(t, p, sh) and not ref.mesh_contains(t, p, new_sh):
                return BAD("licensed_shading_refuted_large", {"boxes": list(boxes), "witness": list(t)})
    return OK(licensed > 0, f"large_len{k}" + ("_dense" if len(sh) > 64 else ""))


def _occ_with_points_in_cell(p, sh, t, cell):
    """for each reference occurrence: list of points of t lying in `cell` of its grid"""
    res = []
    for c in ref.mesh_occ(p, sh, t):
        cset = set(c)
        vals = sorted(t[i] for i in c)
        pts = [(i, v) for i, v in enumerate(t) if i not in cset and ref.cell_of(c, vals, i, v) == cell]
        res.append(pts)
    return res


def check_add_point(case):
    p, sh = tuple(case["M"][0]), frozenset(tuple(c) for c in case["M"][1])
    cell = tuple(case["cell"])
    extra = case.get("extra", 2)
    k = len(p)
    M = MeshPatt(Perm(p), sh)
    if cell in sh:
        return OK(False, "cell_shaded")
    max_t = k + extra
    results = {}
    for d in (-1, 0, 1, 2, 3):
        R = M.add_point(cell, d)
        if len(R) != k + 1 or not ref.is_perm(tuple(R.pattern)):
            return BAD("add_point_invalid", {"dir": d, "got": repr(R)})
        results[d] = (tuple(R.pattern), frozenset(R.shading))
    if M.add_point(cell) != M.add_point(cell, -1):
        return BAD("add_point_default", {})
    inc = M.add_increase(cell)
    dec = M.add_decrease(cell)
    for t in ref.perms_upto(max_t):
        occs = _occ_with_points_in_cell(p, sh, t, cell)
        want_point = any(pts for pts in occs)
        for d, (rp, rsh) in results.items():
            if ref.mesh_contains(t, rp, rsh) != want_point:
                return BAD("add_point_meaning", {"dir": d, "perm": list(t), "result": [list(rp), sorted(rsh)], "want_contained": want_point})
        want_inc = any(any(a[0] < b[0] and a[1] < b[1] for a in pts for b in pts) for pts in occs)
        want_dec = any(any(a[0] < b[0] and a[1] > b[1] for a in pts for b in pts) for pts in occs)
        if ref.mesh_contains(t, tuple(inc.pattern), frozenset(inc.shading)) != want_inc:
            return BAD("add_increase_meaning", {"perm": list(t), "result": repr(inc)})
        if ref.mesh_contains(t, tuple(dec.pattern), frozenset(dec.shading)) != want_dec:
            return BAD("add_decrease_meaning", {"perm": list(t), "result": repr(dec)})
    x, y = cell
    neigh = {(x + dx, y + dy) for dx in (-1, 0, 1) for dy in (-1, 0, 1)} - {cell}
    return OK(bool(neigh & sh), "neighbour_shaded" if neigh & sh else "isolated")


def check_plot(case):
    p, sh = tuple(case["M"][0]), frozenset(tuple(c) for c in case["M"][1])
    M = MeshPatt(Perm(p), sh)
    for cs in (1, 2, 3):
        txt = M.ascii_plot(cell_size=cs) if cs > 1 else M.ascii_plot()
        try:
            back = parse_plot(txt, cs)
        except ValueError as exc:
            return BAD("plot_unparsable", {"cell_size": cs, "text": txt, "why": str(exc)})
        if back != (p, sh):
            return BAD("plot_roundtrip", {"cell_size": cs, "text": txt, "parsed": [list(back[0]), sorted(back[1])]})
    # the TikZ rendering is text too: grid size, filled cells and points are read back
    import re

    tik = M.to_tikz()
    grid = re.search(r"\\foreach \\x in \{1,\.\.\.,(\d+)\}", tik)
    cells = {(int(a), int(b)) for a, b in re.findall(r"\] \((\d+), (\d+)\) rectangle \+\(1,1\);", tik)}
    pts = [(int(a), int(b)) for a, b in re.findall(r"\\draw\[fill=black\] \((\d+),(\d+)\) circle", tik)]
    if grid is None or int(grid.group(1)) != len(p) or cells != set(sh) or pts != [(i + 1, v + 1) for i, v in enumerate(p)] or tik.count("rectangle") != len(sh):
        return BAD("tikz_roundtrip", {"text": tik})
    # shading lookups derived from the pattern
    k = len(p)
    want_boxes = {(i + dx, v + dy) for i, v in enumerate(p) for dx in (0, 1) for dy in (0, 1)}
    if set(M.non_pointless_boxes()) != want_boxes:
        return BAD("non_pointless_boxes", {"got": sorted(M.non_pointless_boxes()), "want": sorted(want_boxes)})
    want_anch = (
        all((k, i) in sh for i in range(k + 1)),
        all((i, k) in sh for i in range(k + 1)),
        all((0, i) in sh for i in range(k + 1)),
        all((i, 0) in sh for i in range(k + 1)),
    )
    if tuple(M.has_anchored_point()) != want_anch:
        return BAD("has_anchored_point", {"got": list(M.has_anchored_point()), "want": list(want_anch)})
    for c in [(x, y) for x in range(k + 1) for y in range(k + 1)]:
        if M.is_shaded(c) != (c in sh):
            return BAD("is_shaded_cell", {"cell": c})
    if tuple(M.get_perm()) != p or len(M) != k:
        return BAD("get_perm", {})
    # region tests: every rectangle of boxes, against the definitions
    if k <= 4:
        for left in range(k + 1):
            for right in range(left, k + 1):
                for lower in range(k + 1):
                    for upper in range(lower, k + 1):
                        want_sh = all((x, y) in sh for x in range(left, right + 1) for y in range(lower, upper + 1))
                        if M.is_shaded((left, lower), (right, upper)) != want_sh:
                            return BAD("is_shaded_rectangle", {"rect": [left, lower, right, upper], "want": want_sh})
                        # points strictly inside the region spanned by the boxes
                        want_free = not any(left <= i < right and lower <= p[i] < upper for i in range(k))
                        if M.is_pointfree((left, lower), (right, upper)) != want_free:
                            return BAD("is_pointfree_rectangle", {"rect": [left, lower, right, upper], "want": want_free})
    return OK(bool(sh) and len(p) >= 1, "plot")


CHECKS = {"lemma": check_lemma, "add_point": check_add_point, "plot": check_plot, "lemma_large": check_lemma_large}


def _all_mesh(k):
    cells = [(x, y) for x in range(k + 1) for y in range(k + 1)]
    for p in ref.perms(k):
        for mask in range(1 << len(cells)):
            yield [list(p), [list(c) for j, c in enumerate(cells) if mask >> j & 1]]


def shard_exhaustive(acc, shard, nshards, stride, extra):
    i = 0
    for k in (0, 1, 2):
        for M in _all_mesh(k):
            take = (i % nshards == shard) and (k < 2 or (i // nshards) % stride == 0)
            i += 1
            if not take:
                continue
            acc.record("lemma", check_lemma, {"M": M, "extra": extra})
            acc.record("plot", check_plot, {"M": M})
            shs = {tuple(c) for c in M[1]}
            for x in range(k + 1):
                for y in range(k + 1):
                    if (x, y) not in shs:
                        acc.record("add_point", check_add_point, {"M": M, "cell": [x, y], "extra": 2})


@st.composite
def mesh_cases(draw, lo, hi):
    p = list(draw(gen.perms(lo, hi)))
    mode = draw(st.sampled_from(["sparse", "sparse", "lines", "half", "empty"]))
    return [p, draw(gen.shadings(len(p), mode))]


@st.composite
def add_point_cases(draw):
    M = draw(mesh_cases(1, 3))
    k = len(M[0])
    shs = {tuple(c) for c in M[1]}
    free = [(x, y) for x in range(k + 1) for y in range(k + 1) if (x, y) not in shs]
    if not free:
        M = [M[0], []]
        free = [(x, y) for x in range(k + 1) for y in range(k + 1)]
    cell = draw(st.sampled_from(free))
    return {"M": M, "cell": list(cell), "extra": 2}


@st.composite
def large_mesh_cases(draw):
    n = draw(st.integers(5, 9))
    p = list(draw(gen.perm_of(n)))
    cells = [(x, y) for x in range(n + 1) for y in range(n + 1)]
    mode = draw(st.sampled_from(["almost_full", "almost_full", "dense", "sparse"]))
    if mode == "almost_full":
        # everything shaded except a few cells around one point: many boxes, few licensed shadings
        i = draw(st.integers(0, n - 1))
        hole = {(i + dx, p[i] + dy) for dx in (0, 1) for dy in (0, 1)}
        hole |= set(draw(st.lists(st.sampled_from(cells), max_size=3)))
        sh = [c for c in cells if c not in hole]
    elif mode == "dense":
        sh = [c for c in cells if draw(st.integers(0, 9)) != 0]
    else:
        sh = draw(st.lists(st.sampled_from(cells), max_size=6, unique=True))
    return {"M": [p, sorted(list(c) for c in sh)]}


def shard_generated(acc, shard, nshards, n_lemma, n_add, n_plot, extra):
    engine.hyp_run(acc, "lemma_large", check_lemma_large, large_mesh_cases(), n_lemma, shard)
    engine.hyp_run(acc, "lemma", check_lemma, mesh_cases(3, 4).map(lambda M: {"M": M, "extra": extra if len(M[0]) < 4 else 2}), n_lemma, shard)
    engine.hyp_run(acc, "add_point", check_add_point, add_point_cases(), n_add, shard)
    engine.hyp_run(acc, "plot", check_plot, gen.mesh_patterns(0, 5).map(lambda M: {"M": M}), n_plot, shard)


# coverage-guided variants of the structured generators (thorough tier, pv/fuzz/target.py hyp:<name>)
FUZZ = {"add_point": ("add_point", add_point_cases)}


def run(acc, tier):
    if tier == "quick":
        engine.pmap(acc, shard_exhaustive, extra=(1, 2))
        engine.pmap(acc, shard_generated, extra=(60, 60, 100, 2))
    else:
        engine.pmap(acc, shard_exhaustive, extra=(1, 3))
        engine.pmap(acc, shard_generated, extra=(1500, 1500, 3000, 3))
        engine.fuzz(acc, "hyp:add_point", CHECKS, 10000, max_len=2048)

"""Case accounting, sharding, Hypothesis drivers, findings classification, evidence.

A *check* is a plain function  case -> Outcome  on a JSON-serialisable case.  Generators
(exhaustive loops, Hypothesis strategies, state machines) only produce cases; they never
assert.  That gives replay (call the function on the saved case), collect-then-shrink
(violations are bucketed by (check, kind), the smallest case per bucket is kept) and
measured coverage for free.
"""
import atexit
import collections
import hashlib
import json
import multiprocessing
import os
import shutil
import sys
import time
import traceback

ROOT = os.environ.get("PV_ROOT") or os.path.dirname(os.path.dirname(os.path.abspath(__file__)))
REPO = os.environ.get("PV_REPO", "/repo")
NPROC = int(os.environ.get("PV_NPROC", "16"))
SEED = int(os.environ.get("VERIF_SEED", "1") or "1")
OUT = os.environ.get("PV_OUT") or ROOT  # where evidence/ and replays/ are written


class HarnessError(Exception):
    """The harness (oracle, generator, environment) is broken; exit 2, never VIOLATION."""


# --------------------------------------------------------------------------- bootstrap
_WORK = None


def bootstrap():
    """Put the repository's working tree first on sys.path, verify it, chdir to scratch."""
    global _WORK
    if REPO not in sys.path:
        sys.path.insert(0, REPO)
    if ROOT not in sys.path:
        sys.path.insert(1, ROOT)
    try:
        import hypothesis  # noqa: F401
    except ImportError:
        sys.path.append(os.path.join(ROOT, ".deps"))
        import hypothesis  # noqa: F401
    import permuta

    pfile = os.path.realpath(permuta.__file__)
    if not pfile.startswith(os.path.realpath(REPO) + os.sep):
        raise HarnessError(f"permuta imported from {pfile}, not from {REPO}")
    # a fuzz campaign started by a check works below that check's scratch area (PV_WORK), so
    # that the check removes it: atexit handlers do not run in a process that atheris ends
    _WORK = os.path.join(os.environ.get("PV_WORK") or os.path.join(ROOT, ".work"), str(os.getpid()))
    os.makedirs(_WORK, exist_ok=True)
    _sweep_stale(os.path.dirname(_WORK))
    os.chdir(_WORK)
    atexit.register(_cleanup, os.getpid(), _WORK)
    return _WORK


def _sweep_stale(base):
    """Scratch areas of runs that were killed (their atexit never ran) are removed by the next
    run: a directory named after a process id that no longer exists belongs to nobody."""
    try:
        names = os.listdir(base)
    except OSError:
        return
    for name in names:
        if not name.isdigit() or int(name) == os.getpid():
            continue
        try:
            os.kill(int(name), 0)
        except ProcessLookupError:
            shutil.rmtree(os.path.join(base, name), ignore_errors=True)
        except OSError:
            pass


def _cleanup(pid, path):
    if os.getpid() == pid:
        try:
            os.chdir(ROOT)
        except OSError:
            pass
        shutil.rmtree(path, ignore_errors=True)


def workdir():
    return _WORK


def fresh_dir(name):
    """A new empty directory under this run's scratch area."""
    base = os.path.join(_WORK, f"{name}-{os.getpid()}")
    i = 0
    while True:
        path = f"{base}-{i}"
        if not os.path.exists(path):
            os.makedirs(path)
            return path
        i += 1


# --------------------------------------------------------------------------- outcomes
class Outcome:
    __slots__ = ("status", "nt", "labels", "kind", "detail", "finding", "key")

    def __init__(self, status, nt=False, labels=(), kind=None, detail=None, finding=None, key=None):
        self.status = status  # "ok" | "bad" | "known"
        self.nt = nt
        self.labels = labels
        self.kind = kind
        self.detail = detail
        self.finding = finding
        self.key = key


def OK(nt=False, *labels, key=None):
    return Outcome("ok", nt, labels, key=key)


def BAD(kind, detail, nt=True, labels=()):
    return Outcome("bad", nt, labels, kind, detail)


def KNOWN(finding, kind, detail, nt=True, labels=()):
    """A deviation that the property module's defect model attributes to a listed finding."""
    return Outcome("known", nt, labels, kind, detail, finding)


# --------------------------------------------------------------------------- findings
_FINDINGS = None


def findings():
    global _FINDINGS
    if _FINDINGS is None:
        path = os.path.join(ROOT, "known_findings.json")
        with open(path) as fh:
            _FINDINGS = json.load(fh)
    return _FINDINGS


def open_findings(prop):
    return {f["id"]: f for f in findings()["findings"] if f["property"] == prop and f["status"] == "open"}


def is_lib_exception(exc):
    """True if the exception's traceback passes through a frame of the library under test."""
    root = os.path.realpath(REPO) + os.sep
    return any(os.path.realpath(f.filename).startswith(root) for f in traceback.extract_tb(exc.__traceback__))


# --------------------------------------------------------------------------- accumulator
def jdump(obj):
    return json.dumps(obj, sort_keys=True, separators=(",", ":"), default=_jdefault)


def _jdefault(o):
    if isinstance(o, (set, frozenset)):
        return sorted(_jdefault(x) if not isinstance(x, (int, str, list, tuple)) else x for x in o)
    if isinstance(o, tuple):
        return list(o)
    return repr(o)


def _h(s):
    return int.from_bytes(hashlib.blake2b(s.encode(), digest_size=8).digest(), "big")


class Acc:
    """Mergeable record of what a (shard of a) run explored."""

    MAX_SAMPLES = 6

    def __init__(self, prop):
        self.prop = prop
        self.evaluations = 0
        self.nontrivial = set()
        self.classes = collections.Counter()
        self.per_check = collections.Counter()
        self.samples = {}
        self.buckets = {}  # (check, kind) -> (size, case, detail)
        self.bucket_counts = collections.Counter()
        self.known = collections.Counter()
        self.known_examples = {}
        self.notes = {}
        self.budget_exhausted = False

    # -- recording
    def record(self, check, fn, case):
        """Run check function fn on case and account for it.  Returns the outcome."""
        try:
            out = fn(case)
        except HarnessError:
            raise
        except RecursionError:
            raise
        except Exception as exc:
            # An exception that passed through library code is the library failing on a
            # generated input (all generators are sound): a violation, bucketed by exception
            # type and innermost library frame.  One raised purely in harness code is a harness bug.
            frames = traceback.extract_tb(exc.__traceback__)
            libframes = [f for f in frames if os.path.realpath(f.filename).startswith(os.path.realpath(REPO) + os.sep)]
            if libframes:
                inner = libframes[-1]
                out = BAD(
                    f"lib_exception_{type(exc).__name__}_{inner.name}",
                    {"exc": f"{type(exc).__name__}: {exc}", "where": f"{os.path.relpath(inner.filename, REPO)}:{inner.lineno}"},
                )
                self.account(check, case, out)
                return out
            raise HarnessError(
                f"check {check} raised {type(exc).__name__}: {exc} on case {jdump(case)[:400]}\n"
                + traceback.format_exc()
            ) from exc
        self.account(check, case, out)
        return out

    def account(self, check, case, out):
        self.evaluations += 1
        self.per_check[check] += 1
        for lab in out.labels:
            self.classes[lab] += 1
        if out.nt:
            key = out.key if out.key is not None else jdump(case)
            self.nontrivial.add(_h(check + "|" + (key if isinstance(key, str) else jdump(key))))
            lst = self.samples.setdefault(check, [])
            if len(lst) < 2:
                lst.append(case)
        if out.status == "bad":
            self._bad(check, case, out)
        elif out.status == "known":
            if out.finding in open_findings(self.prop):
                self.known[out.finding] += 1
                self.known_examples.setdefault(out.finding, {"check": check, "case": case, "detail": out.detail})
            else:
                self._bad(check, case, out)

    def _bad(self, check, case, out):
        bucket = (check, out.kind)
        self.bucket_counts[bucket] += 1
        size = len(jdump(case))
        cur = self.buckets.get(bucket)
        if cur is None or size < cur[0]:
            self.buckets[bucket] = (size, case, out.detail)

    def note(self, key, value):
        self.notes[key] = value

    def count(self, label, n=1):
        self.classes[label] += n

    # -- merging
    def merge(self, other):
        self.evaluations += other.evaluations
        self.nontrivial |= other.nontrivial
        self.classes.update(other.classes)
        self.per_check.update(other.per_check)
        for chk, lst in other.samples.items():
            mine = self.samples.setdefault(chk, [])
            for s in lst:
                if len(mine) < 2:
                    mine.append(s)
        for bucket, val in other.buckets.items():
            cur = self.buckets.get(bucket)
            if cur is None or val[0] < cur[0]:
                self.buckets[bucket] = val
        self.bucket_counts.update(other.bucket_counts)
        self.known.update(other.known)
        for k, v in other.known_examples.items():
            self.known_examples.setdefault(k, v)
        for k, v in other.notes.items():
            if isinstance(v, (int, float)) and isinstance(self.notes.get(k), (int, float)):
                self.notes[k] += v
            else:
                self.notes.setdefault(k, v)
        self.budget_exhausted = self.budget_exhausted or other.budget_exhausted
        return self


# --------------------------------------------------------------------------- sharding
def _own_process_locks():
    """The library guards its class cache with a multiprocessing lock created at import time;
    forked workers would all share that one OS semaphore and queue up behind each other although
    they share no memory.  Each worker therefore replaces every process-shared lock it finds as
    a class attribute in the library's perm_sets modules by a fresh one of the same kind
    (semantics within the worker are unchanged; a lock leaked by one worker can no longer block
    the others)."""
    import multiprocessing.synchronize as mps

    for name, mod in list(sys.modules.items()):
        if not name.startswith("permuta"):
            continue
        for obj in list(vars(mod).values()):
            if isinstance(obj, type) and getattr(obj, "__module__", "").startswith("permuta"):
                for attr, val in list(vars(obj).items()):
                    if isinstance(val, mps.RLock):
                        setattr(obj, attr, multiprocessing.RLock())
                    elif isinstance(val, mps.Lock):
                        setattr(obj, attr, multiprocessing.Lock())


def _shard_entry(args):
    fn, prop, shard, nshards, extra = args
    acc = Acc(prop)
    if multiprocessing.current_process().name != "MainProcess":
        _own_process_locks()
    t0 = time.time()
    try:
        fn(acc, shard, nshards, *extra)
        if os.environ.get("PV_TIMING"):
            print(f"[timing] {fn.__name__} shard={shard} {time.time() - t0:.1f}s", file=sys.stderr, flush=True)
    except HarnessError as exc:
        return ("harness", str(exc))
    except BaseException as exc:  # pylint: disable=broad-except
        return ("harness", f"worker crashed in {fn.__name__} shard {shard}: {type(exc).__name__}: {exc}\n{traceback.format_exc()}")
    return ("ok", acc)


STAGE_TIMEOUT = float(os.environ.get("PV_STAGE_TIMEOUT", "2400"))  # main.py raises it for the thorough tier


def pmap(acc, fn, nshards=None, extra=()):
    """Run fn(acc_shard, shard, nshards, *extra) in nshards forked workers and merge."""
    nshards = nshards or NPROC
    jobs = [(fn, acc.prop, s, nshards, tuple(extra)) for s in range(nshards)]
    if NPROC <= 1 or nshards == 1:
        results = [_shard_entry(j) for j in jobs]
    else:
        ctx = multiprocessing.get_context("fork")
        with ctx.Pool(min(NPROC, nshards)) as pool:
            # a stage that makes no end (workers blocked in C on a leaked lock, say) is reported
            # as a harness error - inconclusive, never a violation and never an endless run
            # and so is a stage that lost a worker (killed by the kernel for using too much memory,
            # say): the pool silently replaces the worker and its shard would never be delivered
            pending = pool.map_async(_shard_entry, jobs, chunksize=1)
            workers = {p.pid for p in pool._pool}  # pylint: disable=protected-access
            t0 = time.time()
            while True:
                pending.wait(2.0)
                if pending.ready():
                    results = pending.get()
                    break
                lost = workers - {p.pid for p in pool._pool if p.is_alive()}  # pylint: disable=protected-access
                if lost:
                    pool.terminate()
                    raise HarnessError(f"{acc.prop}: a worker of stage {getattr(fn, '__name__', fn)} died (pid {sorted(lost)}; killed by a signal - out of memory?)")
                if time.time() - t0 > STAGE_TIMEOUT:
                    pool.terminate()
                    raise HarnessError(f"{acc.prop}: a stage ({getattr(fn, '__name__', fn)}) did not finish within {STAGE_TIMEOUT}s")
    for status, val in results:
        if status != "ok":
            raise HarnessError(val)
        acc.merge(val)
    return acc


# --------------------------------------------------------------------------- hypothesis
def hyp_settings(max_examples, **kw):
    from hypothesis import HealthCheck, Phase, settings

    return settings(
        max_examples=max_examples,
        database=None,
        deadline=None,
        derandomize=False,
        report_multiple_bugs=False,
        suppress_health_check=list(HealthCheck),
        phases=[Phase.generate],
        **kw,
    )


def hyp_run(acc, check, fn, strategy, max_examples, shard=0):
    """Drive check function fn with cases drawn from strategy; collect, never raise."""
    import hypothesis
    from hypothesis import given

    @hypothesis.seed(SEED * 1000 + shard)
    @hyp_settings(max_examples)
    @given(strategy)
    def drive(case):
        acc.record(check, fn, case)

    drive()


def hyp_shrink(check, fn, strategy, kind, max_examples=3000):
    """Second pass for one bucket: let Hypothesis find and shrink a case failing with `kind`."""
    import hypothesis
    from hypothesis import HealthCheck, Phase, settings
    from hypothesis.errors import NoSuchExample

    def fails(case):
        out = fn(case)
        return out.status != "ok" and out.kind == kind

    try:
        return hypothesis.find(
            strategy,
            fails,
            settings=settings(
                max_examples=max_examples,
                database=None,
                deadline=None,
                suppress_health_check=list(HealthCheck),
                phases=[Phase.generate, Phase.shrink],
            ),
            random=__import__("random").Random(SEED),
        )
    except NoSuchExample:
        return None


def run_machine(machine_cls, max_examples, steps, shard=0):
    import hypothesis
    from hypothesis.stateful import run_state_machine_as_test

    run_state_machine_as_test(
        hypothesis.seed(SEED * 1000 + shard)(machine_cls),
        settings=hyp_settings(max_examples, stateful_step_count=steps),
    )


# --------------------------------------------------------------------------- coverage-guided fuzzing
def fuzz(acc, target, fn, runs, nproc=None, max_len=64, corpus_seeds=()):
    """Run the atheris target `target` of this property in nproc parallel campaigns (own seed,
    own fresh corpus and output directory each; odd campaigns start from a few valid inputs,
    even ones from the empty corpus).  Violations found are re-run in-process through the plain
    check function so that they are bucketed, shrunk and replayable like any other case."""
    import subprocess

    nproc = nproc or NPROC
    sys.path.append(os.path.join(ROOT, ".deps"))
    try:
        import atheris  # noqa: F401
    except ImportError:
        # fresh restore: install from the offline wheelhouse into .deps (what setup_cmd does)
        subprocess.run(["sh", os.path.join(ROOT, "tools", "setup.sh")], capture_output=True, check=False, timeout=600)
        import importlib

        importlib.invalidate_caches()
        try:
            import atheris  # noqa: F401
        except ImportError:
            acc.note(f"atheris_{target}", "skipped: atheris not importable")
            return
    procs = []
    for i in range(nproc):
        out = fresh_dir(f"fuzz-{target.replace(':', '_')}-{i}")
        corpus = os.path.join(out, "corpus")
        os.makedirs(corpus)
        if i % 2 == 1:
            for j, blob in enumerate(corpus_seeds):
                with open(os.path.join(corpus, f"seed{j}"), "wb") as fh:
                    fh.write(bytes(blob))
        cmd = [sys.executable, "-B", os.path.join(ROOT, "pv", "fuzz", "target.py"), acc.prop, target, out,
               f"-runs={runs}", f"-seed={SEED * 1000 + i + 1}", f"-max_len={max_len}", "-print_final_stats=0"]
        if target.startswith("hyp:"):
            cmd.append("-len_control=0")  # Hypothesis rejects short buffers: start at full length
        cmd.append(corpus)
        env = dict(os.environ, PV_ROOT=ROOT, PYTHONHASHSEED="0", PV_WORK=os.path.join(out, "work"))
        procs.append((out, subprocess.Popen(cmd, env=env, stdout=subprocess.DEVNULL, stderr=subprocess.DEVNULL, cwd=out)))
    total = {"executions": 0, "nontrivial": 0, "known": 0, "campaigns": 0}
    for out, proc in procs:
        code = proc.wait()
        total["campaigns"] += 1
        try:
            with open(os.path.join(out, "stats.json")) as fh:
                st = json.load(fh)
            for k in ("executions", "nontrivial", "known"):
                total[k] += st.get(k, 0)
        except (OSError, ValueError):
            pass
        vpath = os.path.join(out, "violation.json")
        if os.path.exists(vpath):
            with open(vpath) as fh:
                payload = json.load(fh)
            acc.record(payload["check"], fn[payload["check"]], payload["case"])
        elif code not in (0,):
            raise HarnessError(f"atheris campaign {target} in {out} ended with exit code {code} without a violation file")
        shutil.rmtree(out, ignore_errors=True)
    acc.note(f"atheris_{target}", total)
    acc.count(f"atheris_{target}_executions", total["executions"])
    # executions of the check function inside the fuzz target are evaluations; their non-trivial
    # cases are NOT added to distinct_nontrivial (keys of other processes cannot be de-duplicated)
    acc.evaluations += total["executions"]
    acc.per_check[f"atheris:{target}"] += total["executions"]


# --------------------------------------------------------------------------- shrinking
def _is_perm_list(x):
    return isinstance(x, list) and len(x) > 0 and all(type(v) is int for v in x) and sorted(x) == list(range(len(x)))


def _std(seq):
    order = sorted(range(len(seq)), key=lambda i: (seq[i], i))
    res = [0] * len(seq)
    for r, i in enumerate(order):
        res[i] = r
    return res


def _candidates(obj):
    """Structurally smaller variants of a JSON case (perm-aware: deleting a point of a
    permutation re-standardises it)."""
    if isinstance(obj, list):
        if _is_perm_list(obj):
            for i in range(len(obj)):
                yield _std(obj[:i] + obj[i + 1 :])
            return
        for i in range(len(obj)):
            yield obj[:i] + obj[i + 1 :]
        for i, item in enumerate(obj):
            for sub in _candidates(item):
                yield obj[:i] + [sub] + obj[i + 1 :]
    elif isinstance(obj, dict):
        for key in sorted(obj):
            for sub in _candidates(obj[key]):
                new = dict(obj)
                new[key] = sub
                yield new
    elif type(obj) is int and obj > 0:
        yield 0
        if obj > 1:
            yield obj // 2
            yield obj - 1


def shrink_case(fn, case, kind, budget_s=20.0):
    """Greedy delta-style reduction of a failing case: accept a smaller variant only if the
    check function still reports a violation of the same kind on it (variants on which the
    check raises, or fails differently, are discarded, so an invalid variant can never become
    the reproduction)."""
    t_end = time.time() + budget_s
    case = json.loads(jdump(case))
    improved = True
    steps = 0
    while improved and time.time() < t_end:
        improved = False
        for cand in _candidates(case):
            if time.time() > t_end:
                break
            if len(jdump(cand)) >= len(jdump(case)):
                continue
            try:
                out = fn(cand)
            except BaseException:  # pylint: disable=broad-except
                continue
            if out is not None and out.status == "bad" and out.kind == kind:
                case, improved = cand, True
                steps += 1
                break
    return case, steps


# --------------------------------------------------------------------------- reporting
def finish(acc, tier, level, rule, t0, assumptions=(), extra_cov=None, exhaustive=False, trusted_base=(), checks=None, no_shrink=()):
    """Write replays + evidence, print protocol lines, return exit code."""
    prop = acc.prop
    os.makedirs(os.path.join(OUT, "evidence"), exist_ok=True)
    lines = []
    nviol = 0
    replays = []
    for (check, kind), (size, case, detail) in sorted(acc.buckets.items(), key=lambda kv: kv[0]):
        nviol += 1
        os.makedirs(os.path.join(OUT, "replays"), exist_ok=True)
        shrunk_steps = 0
        if checks and check in checks and check not in no_shrink and not kind.startswith("lib_exception") and os.environ.get("PV_NO_SHRINK") != "1":
            try:
                small, shrunk_steps = shrink_case(checks[check], case, kind, 15.0 if tier == "quick" else 120.0)
                if shrunk_steps:
                    out = checks[check](small)
                    case, detail = small, out.detail
            except BaseException:  # pylint: disable=broad-except
                pass
        payload = {"property": prop, "check": check, "kind": kind, "case": case, "detail": detail,
                   "count_in_run": acc.bucket_counts[(check, kind)], "shrink_steps": shrunk_steps}
        digest = hashlib.blake2b(jdump(payload["case"]).encode(), digest_size=5).hexdigest()
        path = os.path.join(OUT, "replays", f"{prop}-{check}-{kind}-{digest}.json".replace("/", "_"))
        with open(path, "w") as fh:
            fh.write(jdump(payload) + "\n")
        replays.append(path)
        lines.append(f"VIOLATION property={prop} replay={path}")
        lines.append(f"  check={check} kind={kind} count={acc.bucket_counts[(check, kind)]} detail={str(detail)[:300]}")
    opened = open_findings(prop)
    for fid in sorted(opened):
        f = opened[fid]
        seen = acc.known.get(fid, 0)
        lines.append(f"KNOWN-FINDING: property={prop} {fid} {f['what']} (reproduced on {seen} generated cases this run)")
    samples = []
    for chk in sorted(acc.samples):
        for s in acc.samples[chk]:
            if len(samples) < 14:
                samples.append({"check": chk, "case": json.loads(jdump(s))})
    coverage = {
        "evaluations": acc.evaluations,
        "distinct_nontrivial": len(acc.nontrivial),
        "rule": rule,
        "samples": samples,
        "exhaustive": bool(exhaustive),
        "classes": dict(sorted(acc.classes.items())),
        "per_check": dict(sorted(acc.per_check.items())),
        "known_findings_excluded": {k: acc.known[k] for k in sorted(acc.known)},
        "known_finding_examples": json.loads(jdump(acc.known_examples)),
        "budget_exhausted": acc.budget_exhausted,
        "notes": json.loads(jdump(acc.notes)),
        "trusted_base": list(trusted_base),
    }
    if extra_cov:
        coverage.update(extra_cov)
    evidence = {
        "property_id": prop,
        "tier": tier,
        "seed": SEED,
        "level": level,
        "coverage": coverage,
        "assumptions": list(assumptions),
        "wall_s": round(time.time() - t0, 2),
        "violations": nviol,
        "replays": replays,
    }
    with open(os.path.join(OUT, "evidence", f"{prop}.json"), "w") as fh:
        json.dump(evidence, fh, indent=1)
    for ln in lines:
        print(ln)
    print(
        f"[{prop}] tier={tier} seed={SEED} evaluations={acc.evaluations} "
        f"distinct_nontrivial={len(acc.nontrivial)} violations={nviol} wall={evidence['wall_s']}s"
    )
    sys.stdout.flush()
    return 1 if nviol else 0

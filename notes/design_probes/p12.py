import itertools, math
from ref import *
from permuta import *
from permuta.permutils.statistics import PermutationStatistic as PS
def lis(p):
    best=[0]*len(p)
    for i in range(len(p)):
        best[i]=1+max([best[j] for j in range(i) if p[j]<p[i]], default=0)
    return max(best, default=0)
def cycles(p):
    seen=set(); c=[]
    for i in range(len(p)):
        if i in seen: continue
        cyc=[]; j=i
        while j not in seen: seen.add(j); cyc.append(j); j=p[j]
        c.append(cyc)
    return c
def stack_pass(p):
    st=[]; out=[]
    for v in p:
        while st and st[-1]<v: out.append(st.pop())
        st.append(v)
    while st: out.append(st.pop())
    return tuple(out)
def pop_pass(p):
    st=[]; out=[]
    for v in p:
        if st and st[-1]<v:
            while st: out.append(st.pop())
        st.append(v)
    while st: out.append(st.pop())
    return tuple(out)
def npass(p,f):
    c=0; p=tuple(p)
    while p!=tuple(range(len(p))): p=f(p); c+=1
    return c
def isprime(n): return n>1 and all(n%d for d in range(2,int(n**.5)+1))
def holey(p):
    n=len(p)
    def delta(S): return sum(1 for x in S if x+1 not in S)
    return max(delta({p[s] for s in S})-delta(set(S)) for r in range(n+1) for S in itertools.combinations(range(n),r))
R = {
 0: lambda p: sum(1 for i in range(len(p)) for j in range(i+1,len(p)) if p[i]>p[j]),
 1: lambda p: sum(1 for i in range(len(p)) for j in range(i+1,len(p)) if p[i]<p[j]),
 2: lambda p: sum(i+1 for i in range(len(p)-1) if p[i]>p[i+1]),
 3: lambda p: sum(1 for i in range(len(p)-1) if p[i]>p[i+1]),
 4: lambda p: sum(1 for i in range(len(p)-1) if p[i]<p[i+1]),
 5: lambda p: sum(1 for i in range(1,len(p)-1) if p[i-1]<p[i]>p[i+1]),
 6: lambda p: sum(1 for i in range(1,len(p)-1) if p[i-1]>p[i]<p[i+1]),
 7: lambda p: len(cycles(p)),
 8: lambda p: sum(1 for i in range(len(p)) if all(p[j]>p[i] for j in range(i))),
 9: lambda p: sum(1 for i in range(len(p)) if all(p[j]<p[i] for j in range(i))),
 10: lambda p: sum(1 for i in range(len(p)) if all(p[j]>p[i] for j in range(i+1,len(p)))),
 11: lambda p: sum(1 for i in range(len(p)) if all(p[j]<p[i] for j in range(i+1,len(p)))),
 12: lambda p: sum(1 for i in range(len(p)) if p[i]==i),
 13: lambda p: math.lcm(*[len(c) for c in cycles(p)]) if p else 1,
 14: lis,
 15: lambda p: lis([-v for v in p]),
 16: lambda p: sum(p[i]-i for i in range(len(p)) if p[i]>i),
 18: lambda p: max([p[i]-i for i in range(len(p))], default=0),
 19: lambda p: sum(1 for i in range(len(p)) if isprime(i+p[i]+2)),
 20: holey,
 21: lambda p: npass(p, stack_pass),
 22: lambda p: npass(p, pop_pass),
 23: lambda p: sum(1 for i in range(1,len(p)-1) if p[i-1]<p[i]>p[i+1]),
 24: lambda p: sum(1 for i in range(len(p)) if i<p[i]>p[p[i]]),
 25: lambda p: sum(1 for i in range(len(p)) if i>p[i]<p[p[i]]),
 26: lambda p: sum(1 for i in range(len(p)) if i<p[i]<p[p[i]]),
 27: lambda p: sum(1 for i in range(len(p)) if i>p[i]>p[p[i]]),
}
bad={}
for n in range(0,8):
    for t in perms(n):
        P=Perm(t)
        for idx,f in R.items():
            if idx==20 and n>6: continue
            st=PS.get_by_index(idx)
            try: got=st.func(P)
            except Exception as e: got=('EXC',type(e).__name__)
            exp=f(t)
            if got!=exp: bad.setdefault((idx,st.name),[]).append((t,got,exp))
for k,v in bad.items(): print(k, len(v), v[:3])
print("done")

from permuta import *
b = BivincularPatt(Perm((0,1)), [1], [])
m = MeshPatt(Perm((0,1)), [(1,0),(1,1),(1,2)])
print(b == m, m == b, hash(b) == hash(m))
h1 = hash(b); junk = [object() for _ in range(1000)]; x = super; 
hs = set()
for i in range(5):
    hs.add(hash(b)); junk.append([i]*100)
print(len(hs), "distinct hashes for same object")
s = {b}
print(b in s, m in s)
v = VincularPatt(Perm((0,1)), [1]); c = CovincularPatt(Perm((0,1)), [1])
for a_, b_ in [(b,m),(m,b),(v,c),(c,v),(v,b),(b,v)]:
    try:
        print(type(a_).__name__, '<', type(b_).__name__, a_ < b_)
    except Exception as e:
        print(type(a_).__name__, '<', type(b_).__name__, 'EXC', type(e).__name__, e)
try:
    print(sorted([v,c,m,b]))
except Exception as e: print("sorted EXC", e)
# Perm ordering
print(Perm((1,0)) < Perm((0,1,2)), Perm((0,1)) == (0,1), hash(Perm((0,1))) == hash((0,1)))
print(Basis(Perm((0,1))) == MeshBasis(Perm((0,1))), )

"""Disturbed histories: an earlier call that was aborted part-way, and calls that overlap in time.

Both are driven by sys.settrace on the lines of chosen library files, so a disturbance is a pure
function of (code, case): `abort_at` raises an asynchronous-style exception (a KeyboardInterrupt
subclass, what Ctrl-C or a signal handler delivers) when the k-th traced line is about to run;
`interleave` runs several calls as threads under the schedule-owning harness of pv/sched.py.
`bounded` runs a call with a budget of traced lines, so that a call which no longer terminates
is reported instead of hanging the check (the budget is a line count, never wall-clock time)."""
import sys

from . import sched


class Injected(KeyboardInterrupt):
    """The injected asynchronous exception."""


class Budget(BaseException):
    """Raised when a call uses more traced lines than its budget."""


def _is_with_header(frame):
    """A 'line' event on a `with` header also fires when control comes back to it to call
    __exit__ on the normal way out of the block.  The interpreter only delivers real
    asynchronous exceptions at calls and backward jumps, precisely so that `with` always
    reaches __exit__ (bpo-29988); an injection at that event would model an interrupt that
    cannot happen (and leak the lock / file the block manages).  Such events are not counted."""
    import linecache

    text = linecache.getline(frame.f_code.co_filename, frame.f_lineno).lstrip()
    return text.startswith(("with ", "with(", "async with"))


def _tracer(files, on_line, skip_with=False):
    def local(frame, event, arg):
        if event == "line" and not (skip_with and _is_with_header(frame)):
            on_line()
        return local

    def tracer(frame, event, arg):
        if frame.f_code.co_filename not in files:
            return None
        return local

    return tracer


def count_lines(fn, files):
    """(value, number of traced lines executed)"""
    box = [0]

    def on_line():
        box[0] += 1

    old = sys.gettrace()
    sys.settrace(_tracer(files, on_line, skip_with=True))
    try:
        val = fn()
    finally:
        sys.settrace(old)
    return val, box[0]


def abort_at(fn, files, k):
    """Run fn(); when the k-th traced line (1-based) is about to execute, Injected is raised there
    and unwinds the call.  Returns ("aborted", None, k) or ("done", value, lines) when the call
    finished in fewer than k lines.  Any other exception propagates."""
    box = [0]

    def on_line():
        box[0] += 1
        if box[0] == k:
            raise Injected()

    old = sys.gettrace()
    sys.settrace(_tracer(files, on_line, skip_with=True))
    try:
        val = fn()
    except Injected:
        return "aborted", None, box[0]
    finally:
        sys.settrace(old)
    return "done", val, box[0]


def bounded(fn, files, budget):
    """("done", value) or ("budget", None) when more than `budget` traced lines were executed."""
    box = [0]

    def on_line():
        box[0] += 1
        if box[0] > budget:
            raise Budget()

    old = sys.gettrace()
    sys.settrace(_tracer(files, on_line))
    try:
        val = fn()
    except Budget:
        return "budget", None
    finally:
        sys.settrace(old)
    return "done", val


def interleave(funcs, files, choices, max_steps=300000):
    """Run the calls as threads; every traced line is a preemption point and `choices` picks the
    next thread (runnable[c % len(runnable)], thread 0.. to completion afterwards).  Returns the
    Sched (results in .results, .switches, .overrun, .exceptions) and the stalled flag."""
    s = sched.Sched(sched.chooser_from_list(list(choices)), files, max_steps=max_steps)
    results, stalled = s.run(funcs)
    s.results = results
    return s, stalled


def reset_memos(modules):
    """Start a case from a clean process-wide state, so that a case is self-contained and its
    replay reproduces in a fresh process: every dict-valued class attribute whose name mentions
    'cache' is emptied and every lru_cache in the given modules is cleared."""
    import inspect

    n = 0
    for mod in modules:
        for _, obj in list(vars(mod).items()):
            if hasattr(obj, "cache_clear"):
                obj.cache_clear()
                n += 1
            if inspect.isclass(obj) and obj.__module__ == mod.__name__:
                for name, val in list(vars(obj).items()):
                    if isinstance(val, dict) and "cache" in name.lower():
                        val.clear()
                        n += 1
                    fn = getattr(val, "__func__", val)
                    if hasattr(fn, "cache_clear"):
                        fn.cache_clear()
                        n += 1
    return n

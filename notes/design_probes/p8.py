import random, itertools
from ref import *
from permuta import *
from permuta.permutils import *
random.seed(4)
ops = {'r': lambda x: x.reverse(), 'c': lambda x: x.complement(), 'i': lambda x: x.inverse(),
       'rot1': lambda x: x.rotate(1), 'rot2': lambda x: x.rotate(2), 'rot3': lambda x: x.rotate(3), 'rot-1': lambda x: x.rotate(-1), 'rot5': lambda x:x.rotate(5)}
n=0
for trial in range(20000):
    k=random.randint(0,3); p=Perm(random.sample(range(k),k))
    M=MeshPatt.unrank(p, random.getrandbits((k+1)**2)&random.getrandbits((k+1)**2))
    m=random.randint(k,6); T=Perm(random.sample(range(m),m))
    base = T.contains(M)
    for name,f in ops.items():
        if f(T).contains(f(M)) != base: print("EQUIVARIANCE FAIL", name, M, T); raise SystemExit
    assert M.rotate(1).rotate(1)==M.rotate(2) and M.rotate(3).rotate(1)==M and M.reverse().reverse()==M and M.complement().complement()==M and M.inverse().inverse()==M
    assert M.reverse().complement()==M.rotate(2)
    assert M.rotate(1) == M.inverse().reverse() or M.rotate(1)==M.reverse().inverse(), M
    assert set(M.all_syms()) == {g(M) for g in [lambda x:x, ops['r'],ops['c'],ops['i'],ops['rot1'],ops['rot2'],ops['rot3'], lambda x:x.rotate(1).inverse(), lambda x:x.rotate(3).inverse(), lambda x:x.rotate(2).inverse()]}
    assert T.flip_antidiagonal()==T.reverse().complement().inverse()
    n+=1
print("C04 ok", n)
# lex_min orbit invariance
for trial in range(500):
    ps=[Perm(random.sample(range(l),l)) for l in [random.randint(1,5) for _ in range(random.randint(1,3))]]
    lm = lex_min(ps)
    for name,f in ops.items():
        assert lex_min([f(p) for p in ps])==lm
print("lexmin ok")

"""C05 - a basis is a canonical, minimal, order-independent description of its class."""
import itertools

from hypothesis import strategies as st

from permuta import Av, Basis, MeshBasis, MeshPatt, Perm

from .. import engine, gen, lib
from .. import oracle as ref
from ..engine import BAD, OK
from .c03 import json_patterns

META = {
    "level": "exploration",
    "rule": (
        "generated multisets of 1-4 patterns (Perm of length 0-4, MeshPatt of length 0-3 incl. nested shadings of "
        "one underlying pattern, Bivincular/Vincular/Covincular, twins = the same shading through different "
        "classes), each built in EVERY order (<= 24) and with one repeated element, through Basis / MeshBasis / "
        "from_iterable / Av / Av.from_iterable (lists, tuples, one-shot iterators); digit strings 0- and 1-based "
        "with assorted separators for from_string; plus exhaustive small classical multisets every set of 2-3 (4 thorough) shadings of the one-point pattern, every 3-subset of the classical patterns of length 3-4, and bases around the Erdos-Szekeres bound. Oracle: the set of "
        "containment-minimal elements (reference mesh-in-mesh containment) and brute-force class equality. "
        "Non-trivial: some input element contains another (pruning must happen) or >= 2 different pattern "
        "classes are mixed. Distinct = multiset content."
        " Near-contained mesh pairs (the longer pattern's shading is the union of the regions of the shorter one's cells with cells taken out) and independent classical pairs (5-7, 8-12) through the pair check."
    ),
    "assumptions": [
        "a classical pattern is identified with the unshaded mesh pattern when it enters a MeshBasis",
        "class equality is compared by brute force up to length 5 (6 thorough)",
        "which of two equal twins of different Python class is kept is not asserted (==, hash and the class cache do not distinguish them)",
    ],
}


def selftest():
    a = ((0, 1), frozenset({(2, 1)}))
    b = ((0, 1), frozenset({(2, 0), (2, 1)}))
    if not ref.mesh_in_mesh(a[0], a[1], b[0], b[1]) or ref.mesh_in_mesh(b[0], b[1], a[0], a[1]):
        raise engine.HarnessError("oracle mesh_in_mesh self-test failed")
    if ref.minimal_mesh([b, a]) != [a]:
        raise engine.HarnessError("oracle minimal_mesh self-test failed")
    if ref.sub_mesh((3, 2, 1, 0), {(3, 2), (1, 3), (4, 2), (0, 3), (1, 2), (4, 3)}, (0, 1, 3)) != ((2, 1, 0), frozenset({(0, 2), (1, 2), (3, 2)})):
        raise engine.HarnessError("oracle sub_mesh docstring example failed")


def _elem(x):
    if isinstance(x, Perm):
        return (tuple(x), frozenset())
    return (tuple(x.pattern), frozenset(x.shading))


def check_basis(case):
    patts = case["patts"]
    nmax = case.get("n", 5)
    refs = [lib.as_mesh_ref(b) for b in patts]
    all_classical = not any(lib.is_mesh_json(b) for b in patts)
    minimal = set(ref.minimal_mesh(refs))
    orders = list(itertools.permutations(range(len(patts))))
    results = []
    variants = []
    for order in orders:
        variants.append(list(order))
    variants.append(list(range(len(patts))) + [0])  # one repeated element
    variants.append([len(patts) - 1] + list(range(len(patts))))
    first = None
    first_av = None
    Av.clear_cache()
    for order in variants:
        objs = [lib.to_lib(patts[i]) for i in order]
        try:
            if all_classical:
                built = [Basis(*objs), Basis.from_iterable(iter(objs)), Av(objs).basis, Av.from_iterable(iter(objs)).basis, Av(tuple(objs)).basis]
                mbuilt = [MeshBasis(*objs)]
            else:
                built = [MeshBasis(*objs), MeshBasis.from_iterable(iter(objs)), Av(objs).basis, Av.from_iterable(iter(objs)).basis, Av(iter(objs)).basis]
                mbuilt = []
        except ValueError as exc:
            # Av refuses the empty basis / the basis {empty perm}: only that is allowed to raise
            if "Basis should be non-empty" in str(exc) and any(len(r[0]) == 0 and not r[1] for r in refs) and all_classical:
                built = [Basis(*objs)]
                mbuilt = [MeshBasis(*objs)]
            else:
                return BAD("raises", {"order": order, "exc": f"{type(exc).__name__}: {exc}"})
        except Exception as exc:
            if not engine.is_lib_exception(exc):
                raise
            return BAD("raises", {"order": order, "exc": f"{type(exc).__name__}: {exc}"})
        for b in built:
            want_type = Basis if all_classical else MeshBasis
            if type(b) is not want_type:
                return BAD("type", {"order": order, "got": type(b).__name__})
            if first is None:
                first = b
            if b != first or first != b or hash(b) != hash(first):
                return BAD("order_dependent", {"order": order, "got": repr(b), "first": repr(first)})
        for b in built[:1] + mbuilt:
            got = [_elem(x) for x in b]
            if len(set(got)) != len(got):
                return BAD("duplicates", {"got": repr(b)})
            for x, y in itertools.permutations(got, 2):
                if ref.mesh_in_mesh(x[0], x[1], y[0], y[1]):
                    return BAD("not_antichain", {"got": repr(b), "inner": [list(x[0]), sorted(x[1])], "outer": [list(y[0]), sorted(y[1])]})
            if set(got) != minimal:
                return BAD("not_minimal_elements", {"got": repr(b), "want": sorted((list(m[0]), sorted(m[1])) for m in minimal)})
            # fixed point of the construction
            again = type(b)(*b)
            if again != b or type(b).from_iterable(b) != b:
                return BAD("not_fixed_point", {"got": repr(b), "again": repr(again)})
        # equal bases denote the same class object
        try:
            a1 = Av([lib.to_lib(patts[i]) for i in order])
        except ValueError:
            a1 = None
        if a1 is not None:
            if first_av is None:
                first_av = a1
            if a1 is not first_av or Av(a1.basis) is not first_av:
                return BAD("class_identity", {"order": order})
    # the basis defines the same class as the input (brute force, independent of the minimality argument)
    got = [_elem(x) for x in first]
    for n in range(nmax + 1):
        if ref.av(refs, n) != ref.av(got, n):
            return BAD("class_changed", {"n": n, "basis": repr(first)})
    pruned = len(minimal) < len(set(refs))
    kinds = {b["t"] if isinstance(b, dict) else ("mesh" if lib.is_mesh_json(b) else "perm") for b in patts}
    labels = ["pruned"] if pruned else []
    if len(kinds) >= 2:
        labels.append("mixed_kinds")
    labels.append("classical" if all_classical else "meshbasis")
    return OK(pruned or len(kinds) >= 2, *labels)


SEPS = ["_", ",", " ", ", ", ":", "|", "\n", " and ", "-", ";"]


def check_from_string(case):
    perms, sep, pre, post = case["perms"], case["sep"], case["pre"], case["post"]
    Av.clear_cache()
    zero = pre + sep.join("".join(str(v) for v in p) for p in perms) + post
    one = pre + sep.join("".join(str(v + 1) for v in p) for p in perms) + post
    try:
        b0, b1 = Basis.from_string(zero), Basis.from_string(one)
    except Exception as exc:
        if not engine.is_lib_exception(exc):
            raise
        return BAD("from_string_raises", {"zero": zero, "one": one, "exc": repr(exc)})
    want = Basis(*[Perm(p) for p in perms])
    if b0 != b1 or b0 != want or hash(b0) != hash(want):
        return BAD("from_string", {"zero": zero, "one": one, "b0": repr(b0), "b1": repr(b1), "want": repr(want)})
    minimal = {m[0] for m in ref.minimal_mesh([(tuple(p), frozenset()) for p in perms])}
    if {tuple(x) for x in b0} != minimal:
        return BAD("from_string_not_minimal", {"zero": zero, "b0": repr(b0)})
    if any(len(m) == 0 for m in minimal):
        return OK(False, "from_string_empty")
    a0, a1, a2 = Av.from_string(zero), Av.from_string(one), Av(want)
    if a0 is not a1 or a0 is not a2 or a0.basis != want:
        return BAD("from_string_class_identity", {"zero": zero, "one": one})
    return OK(len(minimal) < len({tuple(p) for p in perms}) or len(perms) >= 2, "from_string")


def check_identity_stress(case):
    """Equal bases denote the same class object however many other classes the process has
    created in between (the first object is held all along)."""
    perms, n_other = [tuple(p) for p in case["perms"]], case["others"]
    Av.clear_cache()
    held = Av([Perm(p) for p in perms])
    held.count(4)
    made = 0
    for length in range(5, 9):
        for t in ref.perms(length):
            if made >= n_other:
                break
            if t in perms:
                continue
            Av(Basis(Perm(t)))
            made += 1
        if made >= n_other:
            break
    spellings = {
        "list": lambda: Av([Perm(p) for p in perms]),
        "reversed_with_repeat": lambda: Av([Perm(p) for p in reversed(perms)] + [Perm(perms[0])]),
        "basis": lambda: Av(Basis(*[Perm(p) for p in perms])),
        "from_iterable": lambda: Av.from_iterable(iter([Perm(p) for p in perms])),
        "from_string": lambda: Av.from_string("_".join("".join(str(v + 1) for v in p) for p in perms)),
    }
    for name, make in spellings.items():
        again = make()
        if again is not held:
            return BAD("class_identity_lost_after_other_classes", {"spelling": name, "other_classes_created": made, "held_levels": len(held.cache), "new_levels": len(again.cache)})
    return OK(made >= 100, f"identity_after_{n_other}")


def check_pair_light(case):
    """Two classical patterns of different lengths: the basis is {p} if q contains p, else
    {p, q} - in both orders, through Basis and through Av.  (All pairs of two lengths are swept:
    a wrong containment answer on one pair in a few thousand is enough to keep a redundant
    element or to drop a needed one.)"""
    pp, q = tuple(case[0]), tuple(case[1])
    want = [pp] if ref.contains(q, pp) else sorted([pp, q], key=ref.perm_key)
    for order in ((pp, q), (q, pp)):
        got = [tuple(x) for x in Basis(*[Perm(t) for t in order])]
        if got != want:
            return BAD("pair_basis", {"input": [list(t) for t in order], "got": [list(t) for t in got], "want": [list(t) for t in want]})
    if [tuple(x) for x in Av([Perm(q), Perm(pp)]).basis] != want:
        return BAD("pair_av_basis", {"input": [list(q), list(pp)]})
    return OK(len(want) == 1, "redundant" if len(want) == 1 else "both_kept", key=f"{pp}|{q}")


CHECKS = {"basis": check_basis, "from_string": check_from_string, "identity_stress": check_identity_stress, "pair_light": check_pair_light}


# ------------------------------------------------------------------ generators
@st.composite
def nested_shadings(draw):
    """Same underlying pattern, a chain / family of related shadings, possibly as twins."""
    p = list(draw(gen.perms(0, 3)))
    k = len(p)
    cells = [(x, y) for x in range(k + 1) for y in range(k + 1)]
    big = [list(c) for c in draw(st.lists(st.sampled_from(cells), min_size=1, max_size=min(len(cells), 5), unique=True))]
    out = [[p, sorted(big)]]
    for _ in range(draw(st.integers(1, 3))):
        # subsets of the big shading (comparable with it) and arbitrary small shadings
        # (possibly incomparable with everything) on the same underlying pattern
        if draw(st.booleans()):
            sub = [c for c in big if draw(st.booleans())]
        else:
            sub = [list(c) for c in draw(st.lists(st.sampled_from(cells), max_size=3, unique=True))]
        out.append([p, sorted(sub)])
    return out


@st.composite
def twins(draw):
    p = list(draw(gen.perms(0, 3)))
    k = len(p)
    idx = sorted(draw(st.sets(st.integers(0, k), max_size=2)))
    val = sorted(draw(st.sets(st.integers(0, k), max_size=2)))
    sh = sorted(list(c) for c in lib.biv_shading(k, set(idx), set(val)))
    out = [{"t": "biv", "p": p, "idx": idx, "val": val}, [p, sh]]
    if not val:
        out.append({"t": "vin", "p": p, "idx": idx})
    if not idx:
        out.append({"t": "cov", "p": p, "val": val})
    return out


@st.composite
def near_contained(draw):
    """A short mesh pattern q and a longer one p (two or three more points) built around an
    occurrence of q: p's shading is the union of the regions of q's shaded cells (so p contains q
    as a mesh pattern and is redundant) with zero to two cells taken out and a few added (taking one
    out of a region, in particular out of the middle of a tall or wide one, makes p irredundant)."""
    q = tuple(draw(gen.perms(1, 2)))
    k = len(q)
    n = k + draw(st.integers(2, 3))
    cands = [t for t in ref.perms(n) if ref.contains(t, q)]
    t = draw(st.sampled_from(cands))
    o = draw(st.sampled_from(ref.occ(q, t)))
    cellsq = [(x, y) for x in range(k + 1) for y in range(k + 1)]
    R = draw(st.lists(st.sampled_from(cellsq), min_size=1, max_size=3, unique=True))
    idxs = sorted(o)
    vals = sorted(t[i] for i in idxs)
    col_lo, col_hi = [-1] + idxs, idxs + [n]
    row_lo, row_hi = [-1] + vals, vals + [n]
    S = set()
    for x, y in R:
        S |= {(cx, cy) for cx in range(col_lo[x] + 1, col_hi[x] + 1) for cy in range(row_lo[y] + 1, row_hi[y] + 1)}
    region = sorted(S)
    for _ in range(draw(st.integers(0, 2))):
        if region:
            S.discard(draw(st.sampled_from(region)))
    allc = [(x, y) for x in range(n + 1) for y in range(n + 1)]
    for c in draw(st.lists(st.sampled_from(allc), max_size=2)):
        S.add(c)
    return [[list(q), sorted(list(c) for c in R)], [list(t), sorted(list(c) for c in S)]]


@st.composite
def basis_cases(draw):
    mode = draw(st.sampled_from(["classical", "classical", "mixed", "mixed", "nested", "twins", "erdos_szekeres", "near_contained"]))
    if mode == "near_contained":
        patts = draw(near_contained())
        if draw(st.booleans()):
            patts.append(draw(json_patterns(2)))
        if draw(st.booleans()):
            patts.reverse()
        return {"patts": patts, "n": 5}
    if mode == "erdos_szekeres":
        # an increasing and a decreasing pattern plus patterns around the Erdos-Szekeres bound
        # (a-1)(b-1) that avoid both: the finite-class boundary
        a, b = draw(st.integers(2, 4)), draw(st.integers(2, 3))
        patts = [list(range(a)), list(range(b - 1, -1, -1))]
        bound = (a - 1) * (b - 1)
        for _ in range(draw(st.integers(1, 2))):
            n = max(1, bound + draw(st.integers(-1, 1)))
            cands = [p for p in ref.perms(min(n, 5)) if not ref.contains(p, tuple(patts[0])) and not ref.contains(p, tuple(patts[1]))]
            if cands:
                patts.append(list(draw(st.sampled_from(cands))))
    elif mode == "classical":
        patts = [list(p) for p in draw(st.lists(gen.perms(0, 4), min_size=1, max_size=4))]
        if draw(st.booleans()) and patts:
            # force a containment: extend one element by a point
            b = patts[0]
            v = draw(st.integers(0, len(b)))
            i = draw(st.integers(0, len(b)))
            ext = [w + 1 if w >= v else w for w in b]
            ext.insert(i, v)
            patts.append(ext)
    elif mode == "mixed":
        patts = draw(st.lists(json_patterns(3), min_size=1, max_size=4))
    elif mode == "nested":
        patts = draw(nested_shadings())
        if draw(st.booleans()):
            patts.append(draw(json_patterns(2)))
    else:
        patts = draw(twins())
        if draw(st.booleans()):
            patts.append(draw(json_patterns(2)))
    patts = patts[:4]
    return {"patts": patts}


@st.composite
def string_cases(draw):
    perms = [list(p) for p in draw(st.lists(gen.perms(1, 6), min_size=1, max_size=4))]
    return {
        "perms": perms,
        "sep": draw(st.sampled_from(SEPS)),
        "pre": draw(st.sampled_from(["", "Av(", " ", "{"])),
        "post": draw(st.sampled_from(["", ")", " ", "}"])),
    }


def shard_small_classical(acc, shard, nshards, max_len, max_size):
    pats = [list(p) for n in range(0, max_len + 1) for p in ref.perms(n)]
    i = 0
    for size in range(1, max_size + 1):
        for combo in itertools.combinations_with_replacement(pats, size):
            if i % nshards == shard:
                acc.record("basis", check_basis, {"patts": list(combo), "n": 4})
            i += 1


def shard_pairs_light(acc, shard, nshards, pairs_of_lengths):
    i = done = 0
    for a, b in pairs_of_lengths:
        for pp in ref.perms(a):
            for q in ref.perms(b):
                if i % nshards == shard:
                    acc.record("pair_light", check_pair_light, [list(pp), list(q)])
                    done += 1
                    if done % 20000 == 0:
                        # the library keeps every class ever created (equal bases denote the same
                        # object): millions of them would not fit in memory
                        Av.clear_cache()
                i += 1
    Av.clear_cache()


def pair_light_cases():
    return st.tuples(gen.perms(5, 7), gen.perms(8, 12)).map(lambda pq: [list(pq[0]), list(pq[1])])


def shard_pairs_random(acc, shard, nshards, n):
    """independent pairs at lengths no sweep reaches (pattern 5-7, longer one 8-12)"""
    engine.hyp_run(acc, "pair_light", check_pair_light, pair_light_cases(), n, shard)


def shard_triples_classical(acc, shard, nshards, lo, hi):
    """every 3-subset of the classical patterns of length lo..hi (4060 for 3..4)"""
    pats = [list(p) for n in range(lo, hi + 1) for p in ref.perms(n)]
    for i, combo in enumerate(itertools.combinations(pats, 3)):
        if i % nshards == shard:
            acc.record("basis", check_basis, {"patts": list(combo), "n": 5})


def shard_small_mesh(acc, shard, nshards, sizes):
    """every set of 2..sizes mesh patterns on the underlying pattern 0 (all 16 shadings)"""
    cells = [(0, 0), (0, 1), (1, 0), (1, 1)]
    pats = [[[0], [list(c) for j, c in enumerate(cells) if mask >> j & 1]] for mask in range(16)]
    i = 0
    for size in range(2, sizes + 1):
        for combo in itertools.combinations(pats, size):
            if i % nshards == shard:
                acc.record("basis", check_basis, {"patts": list(combo), "n": 3})
            i += 1


def shard_generated(acc, shard, nshards, n_basis, n_str):
    engine.hyp_run(acc, "basis", check_basis, basis_cases(), n_basis, shard)
    engine.hyp_run(acc, "from_string", check_from_string, string_cases(), n_str, shard)


def shard_identity(acc, shard, nshards, counts):
    bases = [[[0, 2, 1]], [[0, 1, 2], [2, 1, 0, 3]], [[1, 3, 0, 2], [2, 0, 3, 1]], [[0, 1]]]
    i = 0
    for b in bases:
        for n in counts:
            if i % nshards == shard:
                acc.record("identity_stress", check_identity_stress, {"perms": b, "others": n})
            i += 1


# coverage-guided variants of the structured generators (thorough tier, pv/fuzz/target.py hyp:<name>)
FUZZ = {"basis": ("basis", basis_cases), "from_string": ("from_string", string_cases)}


def run(acc, tier):
    engine.pmap(acc, shard_identity, extra=((50, 1500, 5000) if tier == "quick" else (50, 1500, 5000, 45000),))
    engine.pmap(acc, shard_pairs_light, extra=(((2, 5), (3, 5), (4, 5), (3, 6), (4, 6), (5, 6), (6, 7)) if tier == "quick" else ((3, 5), (4, 5), (3, 6), (4, 6), (5, 6), (3, 7), (4, 7), (5, 7), (6, 7), (3, 8), (4, 8)),))
    engine.pmap(acc, shard_pairs_random, extra=((6000,) if tier == "quick" else (100000,)))
    if tier == "quick":
        engine.pmap(acc, shard_small_classical, extra=(3, 2))
        engine.pmap(acc, shard_small_mesh, extra=(3,))
        engine.pmap(acc, shard_triples_classical, extra=(3, 4))
        engine.pmap(acc, shard_generated, extra=(120, 80))
    else:
        engine.pmap(acc, shard_small_classical, extra=(3, 3))
        engine.pmap(acc, shard_small_mesh, extra=(4,))
        engine.pmap(acc, shard_triples_classical, extra=(2, 4))
        engine.pmap(acc, shard_generated, extra=(8000, 4000))
        engine.fuzz(acc, "hyp:basis", CHECKS, 20000, max_len=4096)

import sys, threading, random, time
sys.path.insert(0,'/tmp/probe')
from sched import Sched, SchedLock
from permuta import *
import permuta.perm_sets.permset as ps
F=ps.__file__
def trial(seed, nolock=False):
    rnd=random.Random(seed)
    Av.clear_cache()
    basis=[Perm((0,2,1)),Perm((3,2,1,0))]
    A=Av(basis)
    choices=[rnd.randint(0,3) for _ in range(5000)]
    s=Sched(choices,{F})
    lock=SchedLock(s)
    class Dummy:
        def __enter__(self): return self
        def __exit__(self,*a): pass
    Av._CACHE_LOCK = Dummy() if nolock else lock
    qs=[lambda: A.count(5), lambda: sorted(A.of_length(3)), lambda: (Perm((1,0,2,3)) in A), lambda: A.count(6)]
    def wrap(i,f):
        def g():
            threading.current_thread()._sched_idx=i
            return f()
        return g
    # need idx before trace starts: set in worker - patch: set attribute via wrapper
    res=s.run([wrap(i,f) for i,f in enumerate(qs)])
    return res, s.steps
exp=None
t0=time.time()
for seed in range(30):
    r,steps=trial(seed)
    if exp is None: exp=r; print(r,steps)
    assert r==exp,(seed,r)
print("with lock ok",time.time()-t0)
bad=0
for seed in range(30):
    r,steps=trial(seed,nolock=True)
    if r!=exp: bad+=1
print("nolock differing:",bad,"/30")

"""C11 - every permutation statistic returns the value its definition and name promise."""
import collections
import itertools

from hypothesis import strategies as st

from permuta import Av, Perm
from permuta.misc.math import is_prime
from permuta.permutils.statistics import PermutationStatistic as PS

from .. import engine, gen
from .. import oracle as ref
from .. import stats_ref as S
from ..engine import BAD, KNOWN, OK

META = {
    "level": "exploration",
    "rule": (
        "exhaustive: every permutation up to the tier's bound x the 32 named statistics (27 with an independent "
        "definition, 5 weak) and every listing / count / set / generator method; generated: permutations up to "
        "length 16 for the cheap statistics, holeyness up to length 11; classes Av(B) and bijections given as dicts (identity, the eight "
        "symmetries, random maps, one perturbed value) for distribution_for_length / distribution_up_to / "
        "preserved_in / check_all_preservations / check_all_transformed / equally_distributed / "
        "jointly_equally_distributed; is_prime against trial division. Non-trivial: length >= 4 (statistics); "
        "for tools: the answer set is neither empty nor everything. Distinct = case content."
    ),
    "assumptions": [
        "Number of bounces, foremaxima, afterminima, aftermaxima, foreminima: the oracle is the formula the library's own documentation states (their external references are not reproducible offline), written independently on positions / on the listing oracles",
        "in the tool checks the five weak statistics are evaluated with the library's own functions",
    ],
    "extra_cov": {"weak_oracle_stats": list(S.WEAK)},
}

NAMES = [PS.get_by_index(i).name for i in range(32)]


def selftest():
    if NAMES != [n for n, _ in PS._STATISTICS] or set(NAMES) != set(S.STRONG) | set(S.WEAK):  # pylint: disable=protected-access
        raise engine.HarnessError("statistic table of the library changed: names do not match the oracle table")
    if S.layers((2, 7, 3, 1, 4, 8, 6, 0, 5)) != [[0, 3, 5, 6, 7, 8], [0, 1, 2]]:
        raise engine.HarnessError("oracle layers self-test")
    if S.holeyness((0, 2, 1)) != 1 or S.order((4, 3, 5, 0, 2, 1)) != 6 or ref.lis((0, 2, 1, 3)) != 3:
        raise engine.HarnessError("oracle statistics self-test")


def _listing_checks(p, P):
    """(name, got, want) triples for every listing / count pair."""
    n = len(p)
    inv = S.inversions(p)
    rows = [
        ("inversions", list(P.inversions()), inv),
        ("count_inversions", P.count_inversions(), len(inv)),
        ("non_inversions", list(P.non_inversions()), S.non_inversions(p)),
        ("count_non_inversions", P.count_non_inversions(), len(S.non_inversions(p))),
        ("rank_encoding", P.rank_encoding(), [sum(1 for j in range(i + 1, n) if p[j] < p[i]) for i in range(n)]),
        ("descents", list(P.descents()), S.descents(p)),
        ("descent_set", P.descent_set(), S.descents(p)),
        ("count_descents", P.count_descents(), len(S.descents(p))),
        ("num_descents", P.num_descents(), len(S.descents(p))),
        ("ascents", list(P.ascents()), S.ascents(p)),
        ("ascent_set", P.ascent_set(), S.ascents(p)),
        ("count_ascents", P.count_ascents(), len(S.ascents(p))),
        ("peaks", list(P.peaks()), S.peaks(p)),
        ("peak_list", P.peak_list(), S.peaks(p)),
        ("count_peaks", P.count_peaks(), len(S.peaks(p))),
        ("pinnacles", list(P.pinnacles()), [p[i] for i in S.peaks(p)]),
        ("pinnacle_set", P.pinnacle_set(), [p[i] for i in S.peaks(p)]),
        ("count_pinnacles", P.count_pinnacles(), len(S.peaks(p))),
        ("valleys", list(P.valleys()), S.valleys(p)),
        ("valley_list", P.valley_list(), S.valleys(p)),
        ("count_valleys", P.count_valleys(), len(S.valleys(p))),
        ("bends", list(P.bends()), sorted(S.peaks(p) + S.valleys(p))),
        ("bend_list", P.bend_list(), sorted(S.peaks(p) + S.valleys(p))),
        ("ltrmin", list(P.ltrmin()), S.ltrmin(p)),
        ("ltrmax", list(P.ltrmax()), S.ltrmax(p)),
        ("rtlmin", list(P.rtlmin()), S.rtlmin(p)),
        ("rtlmax", list(P.rtlmax()), S.rtlmax(p)),
        ("count_ltrmin", P.count_ltrmin(), len(S.ltrmin(p))),
        ("count_ltrmax", P.count_ltrmax(), len(S.ltrmax(p))),
        ("count_rtlmin", P.count_rtlmin(), len(S.rtlmin(p))),
        ("count_rtlmax", P.count_rtlmax(), len(S.rtlmax(p))),
        ("fixed_points", list(P.fixed_points()), S.fixed_points(p)),
        ("count_fixed_points", P.count_fixed_points(), len(S.fixed_points(p))),
        ("strong_fixed_points", list(P.strong_fixed_points()), S.strong_fixed_points(p)),
        ("order", P.order(), S.order(p)),
        ("depth", P.depth(), S.depth(p)),
        ("major_index", P.major_index(), S.major_index(p)),
        ("max_drop_size", P.max_drop_size(), S.max_drop(p)),
        ("count_column_sum_primes", P.count_column_sum_primes(), S.column_sum_primes(p)),
        ("count_cycles", P.count_cycles(), len(S.cycles(p))),
        ("all_bonds", list(P.all_bonds()), [i for i in range(n - 1) if abs(p[i] - p[i + 1]) == 1]),
        ("count_bonds", P.count_bonds(), sum(1 for i in range(n - 1) if abs(p[i] - p[i + 1]) == 1)),
        ("inc_bonds", list(P.inc_bonds()), [i for i in range(n - 1) if p[i + 1] - p[i] == 1]),
        ("count_inc_bonds", P.count_inc_bonds(), sum(1 for i in range(n - 1) if p[i + 1] - p[i] == 1)),
        ("dec_bonds", list(P.dec_bonds()), [i for i in range(n - 1) if p[i] - p[i + 1] == 1]),
        ("count_dec_bonds", P.count_dec_bonds(), sum(1 for i in range(n - 1) if p[i] - p[i + 1] == 1)),
        ("cyclic_peaks", list(P.cyclic_peaks()), S.cyclic_peaks(p)),
        ("cyclic_peaks_list", P.cyclic_peaks_list(), S.cyclic_peaks(p)),
        ("count_cyclic_peaks", P.count_cyclic_peaks(), len(S.cyclic_peaks(p))),
        ("cyclic_valleys", list(P.cyclic_valleys()), S.cyclic_valleys(p)),
        ("cyclic_valleys_list", P.cyclic_valleys_list(), S.cyclic_valleys(p)),
        ("count_cyclic_valleys", P.count_cyclic_valleys(), len(S.cyclic_valleys(p))),
        ("double_excedance", list(P.double_excedance()), S.double_excedances(p)),
        ("double_excedance_list", P.double_excedance_list(), S.double_excedances(p)),
        ("count_double_excedance", P.count_double_excedance(), len(S.double_excedances(p))),
        ("double_drops", list(P.double_drops()), S.double_drops(p)),
        ("double_drops_list", P.double_drops_list(), S.double_drops(p)),
        ("count_double_drops", P.count_double_drops(), len(S.double_drops(p))),
        ("longestruns_ascending", tuple(P.longestruns_ascending()), S.longest_runs(p, True)),
        ("longestruns_descending", tuple(P.longestruns_descending()), S.longest_runs(p, False)),
        ("length_of_longestrun_ascending", P.length_of_longestrun_ascending(), S.longest_run(p, True)),
        ("length_of_longestrun_descending", P.length_of_longestrun_descending(), S.longest_run(p, False)),
        ("maximal_decreasing_run", P.maximal_decreasing_run(), S.maximal_decreasing_run(p)),
        ("count_stack_sorts", P.count_stack_sorts(), S.passes(p, S.stack_pass)),
        ("count_pop_stack_sorts", P.count_pop_stack_sorts(), S.passes(p, S.pop_stack_pass)),
    ]
    for step in (1, 2, 3):
        rows.append((f"descents_step{step}", list(P.descents(step)), S.descents(p, step)))
        rows.append((f"ascents_step{step}", list(P.ascents(step_size=step)), S.ascents(p, step)))
        rows.append((f"count_descents_step{step}", P.count_descents(step), len(S.descents(p, step))))
        rows.append((f"count_ascents_step{step}", P.count_ascents(step), len(S.ascents(p, step))))
        rows.append((f"descent_set_step{step}", P.descent_set(step), S.descents(p, step)))
        rows.append((f"ascent_set_step{step}", P.ascent_set(step), S.ascents(p, step)))
    if n >= 2:
        rows.append(("min_gapsize", P.min_gapsize(), S.min_gapsize(p)))
    # every documented alias of a counting form promises the same value
    want_of = {name: want for name, _, want in rows}
    for alias, target in ALIASES:
        if target in want_of:
            rows.append((alias, getattr(P, alias)(), want_of[target]))
    return rows


ALIASES = (
    ("num_ascents", "count_ascents"),
    ("num_peaks", "count_peaks"),
    ("num_pinnacles", "count_peaks"),
    ("num_column_sum_primes", "count_column_sum_primes"),
    ("num_valleys", "count_valleys"),
    ("num_ltrmin", "count_ltrmin"),
    ("num_bonds", "count_bonds"),
    ("bonds", "count_bonds"),
    ("num_inc_bonds", "count_inc_bonds"),
    ("num_dec_bonds", "count_dec_bonds"),
    ("num_cycles", "count_cycles"),
    ("num_rtlmax_ltrmin_layers", "count_rtlmax_ltrmin_layers"),
)


def check_perm(case):
    p = tuple(case["p"])
    heavy = case.get("heavy", True)
    P = Perm(p)
    n = len(p)
    for name, got, want in _listing_checks(p, P):
        if got != want or type(got) is not type(want):
            return BAD("method_" + name, {"got": got, "want": want})
    # the 32 named statistics
    known = None
    for i, name in enumerate(NAMES):
        if name == "Holeyness of a permutation" and not heavy:
            continue
        got = PS.get_by_index(i).func(P)
        if name in S.STRONG:
            want = S.STRONG[name](p)
            if got != want:
                if name in S.F6_MODEL and got == S.F6_MODEL[name](p):
                    known = known or KNOWN("F6", "named_statistic_" + name.replace(" ", "_"), {"index": i, "got": got, "want": want})
                    continue
                return BAD("named_statistic_" + name.replace(" ", "_"), {"index": i, "got": got, "want": want})
        if not isinstance(got, int) or got < 0:
            return BAD("named_statistic_type", {"index": i, "got": got})
    # weak-oracle statistics: count == len(listing), listing obeys the documented formula
    weak = (
        ("foremaxima", P.foremaxima(), P.count_foremaxima(), set(S.ascents(p, 2)) & set(S.ltrmax(p))),
        ("afterminima", P.afterminima(), P.count_afterminima(), set(S.ascents(p, 2)) & set(S.rtlmin(p))),
        ("aftermaxima", P.aftermaxima(), P.count_aftermaxima(), set(S.descents(p, 2)) & set(S.rtlmax(p))),
        ("foreminima", P.foreminima(), P.count_foreminima(), set(S.descents(p, 2)) & set(S.ltrmin(p))),
    )
    for name, lst, cnt, formula in weak:
        if cnt != len(lst) or len(set(lst)) != len(lst) or set(lst) != formula:
            return BAD("weak_" + name, {"list": lst, "count": cnt, "documented_formula": sorted(formula)})
    b = P.count_bounces()
    if not isinstance(b, int) or not 0 <= b <= n * (n - 1) // 2 + n:
        return BAD("weak_bounces_range", {"got": b})
    # cycle decomposition: a partition into genuine cycles
    cd = list(P.cycle_decomp())
    flat = [x for c in cd for x in c]
    if sorted(flat) != list(range(n)) or any(p[c[k]] != c[(k + 1) % len(c)] for c in cd for k in range(len(c))):
        return BAD("cycle_decomp", {"got": cd})
    # pattern counts
    if n <= 8:
        for k, fn in ((3, P.threepats), (4, P.fourpats)):
            got = fn()
            for q in ref.perms(k):
                if got.get(Perm(q), 0) != len(ref.occ(q, p)):
                    return BAD(f"{k}pats", {"pattern": list(q), "got": got.get(Perm(q), 0), "want": len(ref.occ(q, p))})
            if sum(got.values()) != len(list(itertools.combinations(range(n), k))):
                return BAD(f"{k}pats_total", {})
    # layers
    got_layers = list(P.rtlmax_ltrmin_decomposition())
    want_layers = S.layers(p)
    cnt_layers = P.count_rtlmax_ltrmin_layers()
    if cnt_layers != len(got_layers) or P.num_rtlmax_ltrmin_layers() != cnt_layers:
        return BAD("layers_count_vs_listing", {"count": cnt_layers, "listing": got_layers})
    if got_layers != want_layers:
        detail = {"got": got_layers, "want": want_layers}
        if got_layers == S.layers_defect_model(p):
            known = known or KNOWN("F16", "layers", detail)
        else:
            return BAD("layers", detail)
    if known is not None:
        return known
    return OK(n >= 4, f"len{min(n, 9)}")


def check_holeyness(case):
    """holeyness is a maximum over ALL subsets of positions: longer permutations (where the
    maximising subsets are large) are checked against the brute-force definition too"""
    p = tuple(case)
    got = Perm(p).holeyness()
    want = S.holeyness(p)
    if got != want or PS.get_by_index(20).func(Perm(p)) != want:
        return BAD("holeyness_long", {"perm": list(p), "got": got, "want": want})
    return OK(len(p) >= 8, f"holeyness_len{len(p)}")


def _stat_tables(perms, use_model=False):
    """name -> {perm tuple: value} with oracle values (weak ones: library values)."""
    tables = {}
    for i, name in enumerate(NAMES):
        if name in S.STRONG:
            fn = S.F6_MODEL[name] if use_model and name in S.F6_MODEL else S.STRONG[name]
            tables[name] = {p: fn(p) for p in perms}
        else:
            f = PS.get_by_index(i).func
            tables[name] = {p: f(Perm(p)) for p in perms}
    return tables


def _classify(kind, got, want_fn, perms, detail):
    """Compare got with want_fn(tables); attribute to F6 if the run-model reproduces got."""
    want = want_fn(_stat_tables(perms))
    if got == want:
        return None
    model = want_fn(_stat_tables(perms, use_model=True))
    detail = dict(detail, got=got, want=want)
    if got == model:
        return KNOWN("F6", kind, detail)
    return BAD(kind, detail)


def check_bijection(case):
    """case: {"pairs": [[k, v], ...]} a (partial) map between permutations given as data."""
    pairs = [(tuple(k), tuple(v)) for k, v in case["pairs"]]
    bij = {Perm(k): Perm(v) for k, v in pairs}
    pairs = [(tuple(k), tuple(v)) for k, v in bij.items()]
    perms = sorted({x for kv in pairs for x in kv})
    known = None

    def preserved(tables):
        return [name for name in NAMES if all(tables[name][k] == tables[name][v] for k, v in pairs)]

    out = _classify("check_all_preservations", list(PS.check_all_preservations(bij)), preserved, perms, {})
    if out is not None:
        if out.status == "bad":
            return out
        known = known or out
    got_each = [name for i, name in enumerate(NAMES) if PS.get_by_index(i).preserved_in(bij)]
    out = _classify("preserved_in", got_each, preserved, perms, {})
    if out is not None:
        if out.status == "bad":
            return out
        known = known or out

    def transformed(tables):
        res = {}
        for a in NAMES:
            lst = [b for b in NAMES if all(tables[a][k] == tables[b][v] for k, v in pairs)]
            if lst:
                res[a] = lst
        return res

    out = _classify("check_all_transformed", PS.check_all_transformed(bij), transformed, perms, {})
    if out is not None:
        if out.status == "bad":
            return out
        known = known or out
    if known is not None:
        return known
    n_pres = len(preserved(_stat_tables(perms)))
    return OK(0 < n_pres < len(NAMES), "bijection")


def check_distribution(case):
    """case: {"basis": [...] or None, "n": int, "stat": index}"""
    basis, n, idx = case["basis"], case["n"], case["stat"]
    stat = PS.get_by_index(idx)
    name = NAMES[idx]
    if basis is None:
        cls, members = None, [list(ref.perms(k)) for k in range(n + 1)]
    else:
        # classes are whatever Av accepts: classical and mesh bases (whose levels may be empty
        # and non-empty again - a mesh class is not closed downwards)
        from .c02 import _to_lib, _to_ref

        cls = Av([_to_lib(b) for b in basis])
        members = [ref.av([_to_ref(b) for b in basis], k) for k in range(n + 1)]

    def dist(tables_fn):
        res = []
        for k in range(n + 1):
            cnt = collections.Counter(tables_fn(p) for p in members[k])
            lis = [0] * (max(cnt, default=0) + 1)
            for key, val in cnt.items():
                lis[key] = val
            res.append(lis)
        return res

    fn = S.STRONG.get(name) or (lambda p: stat.func(Perm(p)))
    want = dist(fn)
    got_up = stat.distribution_up_to(n, cls)
    got_each = [stat.distribution_for_length(k, cls) for k in range(n + 1)]
    if got_up != got_each:
        return BAD("distribution_up_to_vs_for_length", {"up_to": got_up, "each": got_each})
    for k in range(n + 1):
        if sum(got_each[k]) != len(members[k]):
            return BAD("distribution_sum", {"k": k, "sum": sum(got_each[k]), "class_size": len(members[k])})
    if got_up != want:
        detail = {"stat": name, "got": got_up, "want": want}
        if name in S.F6_MODEL and got_up == dist(S.F6_MODEL[name]):
            return KNOWN("F6", "distribution", detail)
        return BAD("distribution", detail)
    gap = any(not members[k] and any(members[k + 1 :]) for k in range(n + 1))
    return OK(n >= 3 and any(len(d) > 1 for d in want), "distribution", *(["class_with_empty_level_below_nonempty"] if gap else []))


def check_equidistribution(case):
    b1, b2, n, joint = case["b1"], case["b2"], case["n"], case["joint"]
    from .c02 import _to_lib, _to_ref

    c1, c2 = Av([_to_lib(b) for b in b1]), Av([_to_lib(b) for b in b2])
    m1 = [ref.av([_to_ref(b) for b in b1], k) for k in range(n + 1)]
    m2 = [ref.av([_to_ref(b) for b in b2], k) for k in range(n + 1)]
    perms = sorted({p for lv in m1 + m2 for p in lv})

    def equi(tables):
        return [
            name
            for name in NAMES
            if all(
                collections.Counter(tables[name][p] for p in m1[k]) == collections.Counter(tables[name][p] for p in m2[k])
                for k in range(n + 1)
            )
        ]

    out = _classify("equally_distributed", list(PS.equally_distributed(c1, c2, n)), equi, perms, {"b1": b1, "b2": b2, "n": n})
    if out is not None:
        return out
    if joint:

        def jequi(tables):
            return [
                (a, b)
                for a, b in itertools.combinations(NAMES, 2)
                if all(
                    collections.Counter((tables[a][p], tables[b][p]) for p in m1[k])
                    == collections.Counter((tables[a][p], tables[b][p]) for p in m2[k])
                    for k in range(n + 1)
                )
            ]

        out = _classify("jointly_equally_distributed", list(PS.jointly_equally_distributed(c1, c2, n, 2)), jequi, perms, {"b1": b1, "b2": b2, "n": n})
        if out is not None:
            return out
    e = equi(_stat_tables(perms))
    return OK(0 < len(e) < len(NAMES), "equidistribution")


def check_prime(case):
    n = case
    if is_prime(n) != S.is_prime(n):
        return BAD("is_prime", {"n": n, "got": is_prime(n)})
    return OK(n > 3, "prime" if S.is_prime(n) else "composite")


def check_long(case):
    """Every listing / counting form on a permutation of a few hundred points, with the
    interpreter's default recursion budget available to the library."""
    from ..lib import with_default_recursion_budget

    p = tuple(case)
    P = Perm(p)
    status, rows = with_default_recursion_budget(lambda: _listing_checks(p, P))
    if status == "recursion":
        return BAD("long_recursion_error", {"length": len(p)})
    for name, got, want in rows:
        if got != want or type(got) is not type(want):
            return BAD("long_method_" + name, {"length": len(p)})
    status, vals = with_default_recursion_budget(lambda: (P.order(), P.count_fixed_points(), P.major_index(), P.count_cycles()))
    import math

    want_order = 1
    for cyc in S.cycles(p):  # the order is the lcm of the cycle lengths (S.order iterates powers: too slow here)
        want_order = want_order * len(cyc) // math.gcd(want_order, len(cyc))
    if status == "recursion" or vals != (want_order, len(S.fixed_points(p)), sum(i + 1 for i in S.descents(p)), len(S.cycles(p))):
        return BAD("long_order_fixed_major_cycles", {"length": len(p)})
    return OK(True, "long", key=str(hash(p)))


CHECKS = {
    "long": check_long,
    "perm": check_perm,
    "holeyness": check_holeyness,
    "bijection": check_bijection,
    "distribution": check_distribution,
    "equidistribution": check_equidistribution,
    "prime": check_prime,
}


# ------------------------------------------------------------------ generators
def shard_perms(acc, shard, nshards, max_n, heavy_n):
    for i, p in enumerate(ref.perms_upto(max_n)):
        if i % nshards == shard:
            acc.record("perm", check_perm, {"p": list(p), "heavy": len(p) <= heavy_n})


def check_light(case):
    """Listing / counting forms and the cheap named statistics alone, so that every permutation
    of one further length can be swept."""
    p = tuple(case)
    P = Perm(p)
    for name, got, want in _listing_checks(p, P):
        if got != want or type(got) is not type(want):
            return BAD("light_method_" + name, {"perm": list(p), "got": got, "want": want})
    for i, name in enumerate(NAMES):
        if name in S.STRONG and name not in S.F6_MODEL and name != "Holeyness of a permutation":
            got = PS.get_by_index(i).func(P)
            if got != S.STRONG[name](p):
                return BAD("light_named_statistic_" + name.replace(" ", "_"), {"perm": list(p), "got": got, "want": S.STRONG[name](p)})
    return OK(True, "light", key="light" + str(p))


CHECKS["light"] = check_light


def shard_light(acc, shard, nshards, n):
    for i, p in enumerate(ref.perms(n)):
        if i % nshards == shard:
            acc.record("light", check_light, list(p))


def shard_primes(acc, shard, nshards, top):
    for n in range(shard, top, nshards):
        acc.record("prime", check_prime, n)


SYM_OPS = {
    "id": lambda p: p,
    "r": lambda p: ref.sym_perm("r", p),
    "c": lambda p: ref.sym_perm("c", p),
    "i": lambda p: ref.sym_perm("i", p),
    "rc": lambda p: ref.sym_perm("rc", p),
    "rot": lambda p: ref.sym_perm("rot", p),
    "rot3": lambda p: ref.sym_perm("rot3", p),
    "anti": lambda p: ref.sym_perm("anti", p),
}


@st.composite
def bijection_cases(draw):
    mode = draw(st.sampled_from(["sym", "sym_perturbed", "random", "class"]))
    n = draw(st.integers(1, 4))
    dom = [p for k in range(n + 1) for p in ref.perms(k)]
    if mode in ("sym", "sym_perturbed"):
        g = SYM_OPS[draw(st.sampled_from(sorted(SYM_OPS)))]
        pairs = [[list(p), list(g(p))] for p in dom]
        if mode == "sym_perturbed":
            i = draw(st.integers(0, len(pairs) - 1))
            pairs[i][1] = list(draw(gen.perm_of(len(pairs[i][0]))))
        return {"pairs": pairs}
    if mode == "random":
        keys = draw(st.lists(gen.perms(0, 5), min_size=1, max_size=12))
        # mostly length preserving, sometimes not (the tools accept any dict of permutations)
        return {"pairs": [[list(k), list(draw(gen.perm_of(len(k)) if draw(st.integers(0, 3)) else gen.perms(0, 5)))] for k in keys]}
    # a symmetry restricted to a class (bijection between Av(B) and Av(g B))
    b = tuple(draw(gen.perms(2, 3)))
    g = SYM_OPS[draw(st.sampled_from(sorted(SYM_OPS)))]
    pairs = [[list(p), list(g(p))] for k in range(5) for p in ref.av([b], k)]
    return {"pairs": pairs}


@st.composite
def distribution_cases(draw):
    basis = None if draw(st.integers(0, 3)) == 0 else [list(p) for p in draw(st.lists(gen.perms(2, 4), min_size=1, max_size=3))]
    if basis is not None and draw(st.integers(0, 2)) == 0:
        # mesh classes; fully shaded patterns are contained only in their own underlying permutation,
        # so every permutation of one small length can be excluded while longer ones remain
        kind = draw(st.sampled_from(["full", "full", "random"]))
        if kind == "full":
            k = draw(st.integers(1, 2))
            basis = [[list(q), [[x, y] for x in range(k + 1) for y in range(k + 1)]] for q in ref.perms(k)]
            if draw(st.booleans()):
                basis.append(list(draw(gen.perms(3, 4))))
        else:
            basis = [draw(gen.mesh_patterns(1, 3)) for _ in range(draw(st.integers(1, 2)))]
    idx = draw(st.integers(0, 31))
    n = draw(st.integers(0, 5 if idx != 20 else 4))
    return {"basis": basis, "n": n, "stat": idx}


@st.composite
def equi_cases(draw):
    if draw(st.integers(0, 2)) == 0:
        # classes that coincide below the length of their shortest basis element and differ above:
        # statistics are equidistributed up to an explicit small n but not beyond it
        L = draw(st.sampled_from([3, 4]))
        b1 = [list(p) for p in draw(st.lists(gen.perm_of(L), min_size=1, max_size=2))]
        b2 = [list(p) for p in draw(st.lists(gen.perm_of(L), min_size=1, max_size=2))]
        joint = draw(st.booleans())
        return {"b1": b1, "b2": b2, "n": draw(st.sampled_from([L - 1, L - 1, L])), "joint": joint}
    if draw(st.integers(0, 4)) == 0:
        # cancelling differences: 'all permutations except p and q2' against 'all except p2 and q'
        # (a fully shaded mesh pattern is contained in its own underlying permutation only), with
        # p, p2 of one length, q, q2 of another, s(p) = s(q) != s(p2) = s(q2) for a chosen statistic s:
        # the two classes differ at both lengths for s, yet agree once the lengths are pooled
        a = draw(st.integers(2, 3))
        b = draw(st.integers(a + 1, 4))
        sname = draw(st.sampled_from(["Number of descents", "Number of inversions", "Number of fixed points", "Number of cycles", "Number of peaks", "Number of left-to-right minimas"]))
        fn = S.STRONG[sname]
        by_a, by_b = {}, {}
        for t in ref.perms(a):
            by_a.setdefault(fn(t), []).append(t)
        for t in ref.perms(b):
            by_b.setdefault(fn(t), []).append(t)
        common = sorted(set(by_a) & set(by_b))
        if len(common) >= 2:
            v1, v2 = draw(st.permutations(common))[:2]
            pp, p2 = draw(st.sampled_from(by_a[v1])), draw(st.sampled_from(by_a[v2]))
            q, q2 = draw(st.sampled_from(by_b[v1])), draw(st.sampled_from(by_b[v2]))

            def full(t):
                return [list(t), [[x, y] for x in range(len(t) + 1) for y in range(len(t) + 1)]]

            return {"b1": [full(pp), full(q2)], "b2": [full(p2), full(q)], "n": b, "joint": draw(st.booleans())}
    if draw(st.integers(0, 5)) == 0:
        # mesh classes (levels may vanish and come back): a mesh basis against its symmetric image or itself
        m = draw(gen.mesh_patterns(1, 2, draw(st.sampled_from(["full", "dense", "sparse"]))))
        other = [list(ref.sym_perm("r", tuple(m[0]))), sorted([len(m[0]) - x, y] for x, y in m[1])] if draw(st.booleans()) else m
        return {"b1": [m], "b2": [other], "n": draw(st.integers(2, 4)), "joint": draw(st.booleans())}
    b1 = [list(p) for p in draw(st.lists(gen.perms(2, 4), min_size=1, max_size=2))]
    mode = draw(st.sampled_from(["sym", "random", "same"]))
    if mode == "sym":
        g = SYM_OPS[draw(st.sampled_from(sorted(SYM_OPS)))]
        b2 = [list(g(tuple(p))) for p in b1]
    elif mode == "same":
        b2 = list(reversed(b1))
    else:
        b2 = [list(p) for p in draw(st.lists(gen.perms(2, 4), min_size=1, max_size=2))]
    joint = draw(st.integers(0, 5)) == 0
    return {"b1": b1, "b2": b2, "n": draw(st.integers(2, 4 if joint else 5)), "joint": joint}


def shard_generated(acc, shard, nshards, n_perm, n_bij, n_dist, n_equi, n_prime):
    lengths = st.sampled_from([8, 9, 9, 9, 10, 11, 11])
    engine.hyp_run(acc, "holeyness", check_holeyness, lengths.flatmap(gen.perm_of).map(list), 2 * n_perm, shard)
    engine.hyp_run(acc, "perm", check_perm, gen.perms(8, 16).map(lambda p: {"p": list(p), "heavy": False}), n_perm, shard)
    engine.hyp_run(acc, "bijection", check_bijection, bijection_cases(), n_bij, shard)
    engine.hyp_run(acc, "distribution", check_distribution, distribution_cases(), n_dist, shard)
    engine.hyp_run(acc, "equidistribution", check_equidistribution, equi_cases(), n_equi, shard)
    engine.hyp_run(acc, "prime", check_prime, st.integers(0, 10**9), n_prime, shard)
    engine.hyp_run(acc, "long", check_long, st.integers(150, 300).flatmap(gen.perm_of).map(list), 2 if n_perm < 200 else 10, shard)


def run(acc, tier):
    engine.pmap(acc, shard_light, extra=((8,) if tier == "quick" else (9,)))
    if tier == "quick":
        engine.pmap(acc, shard_perms, extra=(7, 6))
        engine.pmap(acc, shard_primes, extra=(10000,))
        engine.pmap(acc, shard_generated, extra=(30, 12, 25, 9, 60))
    else:
        engine.pmap(acc, shard_perms, extra=(8, 7))
        engine.pmap(acc, shard_primes, extra=(100000,))
        engine.pmap(acc, shard_generated, extra=(3000, 800, 1500, 300, 5000))

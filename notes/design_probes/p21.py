import itertools, time, random
from ref import *
from pin_ref import decode
from permuta import *
from permuta.permutils.pin_words import PinWords as PW
random.seed(10)
def mwords(n):
    if n==0: yield ""; return
    for w in mwords(n-1):
        for c in "ULDR":
            if w and ((w[-1] in "UD") == (c in "UD")): continue
            yield w+c
letter={"RU":"1","UR":"1","LU":"2","UL":"2","LD":"3","DL":"3","RD":"4","DR":"4"}
def m2perm(w): return decode(letter[w[:2]]+w[2:])
L=9
MW=[w for n in range(2,L+1) for w in mwords(n)]
MP={w:m2perm(w) for w in MW}
print(len(MW))
t0=time.time(); bad=[]
allp=[t for n in range(1,5) for t in perms(n)]
for t in allp:
    dfa=PW.make_dfa_for_perm(Perm(t))
    for w in MW:
        a=dfa.accepts_input(w); truth=bool(occ(t,MP[w])) if len(t)<=len(MP[w]) else False
        if a!=truth: bad.append((t,w,a,truth))
    for n in range(0,2):
        for w in mwords(n):
            if dfa.accepts_input(w): print("accepts short",t,repr(w))
print("single perms", len(allp), len(bad), bad[:10], time.time()-t0)

"""Prototype: deterministic thread scheduler driven by a choice sequence.
Each worker runs in an OS thread with sys.settrace; on every 'line' event in
traced files it yields control to the scheduler, which picks the next runnable
thread from the choice sequence."""
import sys, threading

class Sched:
    def __init__(self, choices, trace_files, max_steps=200000):
        self.choices=list(choices); self.ci=0
        self.trace_files=trace_files
        self.cv=threading.Condition()
        self.current=None        # thread index allowed to run
        self.alive=set(); self.blocked={}  # idx -> lock it's waiting on
        self.steps=0; self.max_steps=max_steps
        self.trace=[]
    def _pick(self):
        runnable=sorted(i for i in self.alive if i not in self.blocked)
        if not runnable:
            self.current=None
            return
        if self.ci < len(self.choices):
            c=self.choices[self.ci]; self.ci+=1
        else: c=0
        self.current=runnable[c % len(runnable)]
        self.trace.append(self.current)
    def yield_point(self, idx):
        with self.cv:
            self.steps+=1
            self._pick(); self.cv.notify_all()
            while self.current!=idx:
                self.cv.wait()
    def make_trace(self, idx):
        def tracer(frame, event, arg):
            if frame.f_code.co_filename not in self.trace_files: return None
            def local(frame, event, arg):
                if event=='line': self.yield_point(idx)
                return local
            return local
        return tracer
    def run(self, funcs):
        results=[None]*len(funcs); threads=[]
        def worker(i,f):
            with self.cv:
                while self.current!=i: self.cv.wait()
            sys.settrace(self.make_trace(i))
            try: results[i]=('ok',f())
            except BaseException as e: results[i]=('exc',repr(e))
            finally:
                sys.settrace(None)
                with self.cv:
                    self.alive.discard(i); 
                    # wake threads blocked on nothing; locks handled by SchedLock
                    self._pick(); self.cv.notify_all()
        self.alive=set(range(len(funcs)))
        for i,f in enumerate(funcs):
            t=threading.Thread(target=worker,args=(i,f),daemon=True); threads.append(t); t.start()
        with self.cv:
            self._pick(); self.cv.notify_all()
        for t in threads: t.join(60)
        return results

class SchedLock:
    """Cooperative lock: acquisition is a scheduling point; a thread that finds it
    held marks itself blocked and lets the scheduler run others."""
    def __init__(self, sched): self.s=sched; self.owner=None
    def __enter__(self):
        me=self._me()
        s=self.s
        with s.cv:
            while self.owner is not None:
                s.blocked[me]=self
                s._pick(); s.cv.notify_all()
                while s.current!=me or me in s.blocked:
                    s.cv.wait()
            self.owner=me
        return self
    def __exit__(self,*a):
        s=self.s
        with s.cv:
            self.owner=None
            for i,l in list(s.blocked.items()):
                if l is self: del s.blocked[i]
    def _me(self): return threading.current_thread()._sched_idx

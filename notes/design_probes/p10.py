import random, itertools, time
from ref import *
from permuta import *
from permuta.misc import *
random.seed(6)
ALL = {n: [Perm(t) for t in perms(n)] for n in range(8)}
def containers(M, N):
    return frozenset(T for n in range(N+1) for T in ALL[n] if T.contains(M))
t0=time.time(); nshade=0; nsim=0
for trial in range(1500):
    k=random.randint(1,3); p=Perm(random.sample(range(k),k))
    M=MeshPatt.unrank(p, random.getrandbits((k+1)**2)&random.getrandbits((k+1)**2))
    base=None
    for x in range(k+1):
        for y in range(k+1):
            if M.can_shade((x,y)):
                nshade+=1
                if base is None: base=containers(M,6)
                if containers(M.shade((x,y)),6)!=base: print("SHADE FAIL",M,(x,y)); raise SystemExit
            for (x2,y2) in [(x+1,y),(x,y+1)]:
                if x2<=k and y2<=k and M.can_simul_shade((x,y),(x2,y2)):
                    nsim+=1
                    if base is None: base=containers(M,6)
                    if containers(M.shade((x,y),(x2,y2)),6)!=base: print("SIMUL FAIL",M,(x,y),(x2,y2)); raise SystemExit
print("shading lemma ok", nshade, nsim, time.time()-t0)
# add_point
for trial in range(1500):
    k=random.randint(0,2); p=Perm(random.sample(range(k),k))
    M=MeshPatt.unrank(p, random.getrandbits((k+1)**2)&random.getrandbits((k+1)**2))
    cells=[(x,y) for x in range(k+1) for y in range(k+1) if (x,y) not in M.shading]
    if not cells: continue
    c=random.choice(cells); d=random.choice([DIR_NONE,DIR_EAST,DIR_NORTH,DIR_WEST,DIR_SOUTH])
    Q=M.add_point(c,d)
    for n_ in range(0,6):
        for T in ALL[n_]:
            exp=False
            for o in M.occurrences_in(T):
                vals=sorted(T[i] for i in o)
                for i,v in enumerate(T):
                    if i in o: continue
                    if (sum(1 for j in o if j<i), sum(1 for w in vals if w<v))==c: exp=True
            if T.contains(Q)!=exp: print("ADD_POINT FAIL",M,c,d,Q,T,exp); raise SystemExit
print("add_point ok", time.time()-t0)

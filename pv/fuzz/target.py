"""Coverage-guided fuzz targets (atheris / libFuzzer) with the semantic oracle inside.

usage: target.py <Cxx> <target> <outdir> [libFuzzer args: -runs=N -seed=S corpus_dir ...]

Bytes are decoded by a FuzzedDataProvider layer into the same JSON case the property's
plain check function takes; the check function (reference-model oracle) runs inside the
target.  A violation is written to <outdir>/violation.json and the process exits 1; stats
(executions, non-trivial cases) are flushed to <outdir>/stats.json every 25 executions
because libFuzzer ends the process without running atexit handlers.
"""
import json
import os
import sys

ROOT = os.environ.get("PV_ROOT") or os.path.dirname(os.path.dirname(os.path.dirname(os.path.abspath(__file__))))
sys.path.insert(0, ROOT)
sys.path.append(os.path.join(ROOT, ".deps"))

import atheris  # noqa: E402

# the library must be imported for the first time inside the instrumentation context
sys.path.insert(0, os.environ.get("PV_REPO", "/repo"))
with atheris.instrument_imports(include=["permuta"]):
    import permuta  # noqa: F401
    import permuta.bisc  # noqa: F401
    import permuta.enumeration_strategies  # noqa: F401
    import permuta.permutils.pin_words  # noqa: F401

import importlib  # noqa: E402

from pv import engine  # noqa: E402

engine.bootstrap()
PROP = sys.argv[1].upper()
MOD = importlib.import_module(f"pv.props.{PROP.lower()}")

from pv import oracle as ref  # noqa: E402

TARGET = sys.argv[2]
OUTDIR = sys.argv[3]
os.makedirs(OUTDIR, exist_ok=True)
STATS = {"executions": 0, "nontrivial": 0, "known": 0}
_SEEN = set()


def _perm(fdp, max_len):
    n = fdp.ConsumeIntInRange(0, max_len)
    return list(ref.std([fdp.ConsumeIntInRange(0, 255) for _ in range(n)]))


def dec_c01_pair(fdp):
    return "pair", [_perm(fdp, 6), _perm(fdp, 10)]


def dec_c01_coloured(fdp):
    p, t = _perm(fdp, 4), _perm(fdp, 8)
    pc = [fdp.ConsumeIntInRange(0, 2) for _ in p]
    tc = [fdp.ConsumeIntInRange(0, 2) for _ in t]
    return "coloured", [p, t, pc, tc]


def dec_c03_mesh(fdp):
    p, t = _perm(fdp, 4), _perm(fdp, 8)
    k = len(p)
    sh = [[x, y] for x in range(k + 1) for y in range(k + 1) if fdp.ConsumeIntInRange(0, 3) == 0]
    return "mesh", [[p, sh], t]


def dec_c14_contain(fdp):
    n = fdp.ConsumeIntInRange(1, 8)
    w = "1234"[fdp.ConsumeIntInRange(0, 3)]
    while len(w) < n:
        last = w[-1]
        opts = "1234" + ("ULDR" if last in "1234" else ("LR" if last in "UD" else "UD"))
        w += opts[fdp.ConsumeIntInRange(0, len(opts) - 1)]
    sigma = _perm(fdp, min(5, len(w)))
    if not sigma:
        sigma = [0]
    return "contain", {"w": w, "sigma": sigma}


def dec_c17_bisc(fdp):
    n = fdp.ConsumeIntInRange(1, 4)
    m = fdp.ConsumeIntInRange(1, n)
    size = sum(1 for _ in ref.perms_upto(n))
    ranks = [i for i in range(size) if fdp.ConsumeBool()]
    return "bisc", {"n": n, "m": m, "ranks": ranks}


DECODERS = {
    ("C01", "pair"): dec_c01_pair,
    ("C01", "coloured"): dec_c01_coloured,
    ("C03", "mesh"): dec_c03_mesh,
    ("C14", "contain"): dec_c14_contain,
    ("C17", "bisc"): dec_c17_bisc,
}


def _flush():
    with open(os.path.join(OUTDIR, "stats.json"), "w") as fh:
        json.dump(STATS, fh)


def target(data):
    fdp = atheris.FuzzedDataProvider(data)
    check, case = DECODERS[(PROP, TARGET)](fdp)
    run_case(check, case)


def run_case(check, case):
    out = engine.Acc(PROP).record(check, MOD.CHECKS[check], case)
    STATS["executions"] += 1
    if out.nt:
        key = engine.jdump(case)
        if key not in _SEEN:
            _SEEN.add(key)
            STATS["nontrivial"] += 1
    if out.status == "known":
        STATS["known"] += 1
    if out.status == "bad":
        with open(os.path.join(OUTDIR, "violation.json"), "w") as fh:
            json.dump({"property": PROP, "check": check, "kind": out.kind, "case": json.loads(engine.jdump(case)), "detail": json.loads(engine.jdump(out.detail))}, fh)
        _flush()
        sys.stdout.flush()
        os._exit(1)
    if STATS["executions"] % 25 == 0 or STATS["executions"] < 5:
        _flush()


def hyp_target(name):
    """Targets named hyp:<name>: the property module's own Hypothesis strategy (MOD.FUZZ[name] =
    (check name, strategy factory)) is driven by libFuzzer's bytes through Hypothesis'
    fuzz_one_input, so the structured generator becomes coverage-guided without a second decoder."""
    from hypothesis import HealthCheck, given, settings

    check, factory = MOD.FUZZ[name]

    @settings(database=None, deadline=None, suppress_health_check=list(HealthCheck))
    @given(factory())
    def drive(case):
        run_case(check, case)

    return drive.hypothesis.fuzz_one_input


def main():
    argv = [sys.argv[0]] + sys.argv[4:]
    fn = hyp_target(TARGET[4:]) if TARGET.startswith("hyp:") else target
    atheris.Setup(argv, fn)
    _flush()
    atheris.Fuzz()


if __name__ == "__main__":
    main()

"""C19 - reported enumeration strategies follow their stated conditions and symmetries."""
import itertools

from hypothesis import strategies as st

from permuta import Perm
from permuta.enumeration_strategies import (
    all_enumeration_strategies,
    fast_enumeration_strategies,
    find_strategies,
    long_enumeration_strategies,
)
from permuta.enumeration_strategies.core_strategies import core_strategies
from permuta.permutils.pin_words import PinWords as PW

from .. import engine, gen
from .. import oracle as ref
from ..engine import BAD, OK
from .c13 import o_maximum, o_rightmost

META = {
    "level": "exploration",
    "rule": (
        "generated bases assembled from the six 'needed' patterns, '1 (+) alpha' extensions with alpha random / "
        "sum- or skew-indecomposable / ending in a fixed point, near misses and noise; every basis is searched in "
        "its given order, reversed, with one repetition, and under all eight symmetries; quick and slow search. "
        "Oracle: the hypotheses re-implemented on plain tuples with the reference containment (a core strategy "
        "applies iff for some symmetric image every needed pattern contains a basis element and every other "
        "element has the prescribed form); InsertionEncodingStrategy iff the C13 oracle; FinitelyManySimples iff "
        "PinWords.has_finite_simples (whose semantics is C16); metamorphic invariance of the reported set. "
        "Form sweep: each strategy's needed patterns plus every single further element of length 2-7 (8 thorough), "
        "applies() of all eight strategies and the quick search against the oracle. "
        "Non-trivial: some core strategy applies (form sweep: the further element has at least 5 points). Distinct = basis content."
    ),
    "assumptions": [
        "basis elements have length >= 2: for the length-1 permutation the form '1 (+) alpha, alpha indecomposable' has no agreed meaning (alpha empty) and the library asserts non-emptiness in its helpers",
        "the two mesh-based shapes (Rd2134, Ru2143) are documented only by code ('TODO' docstrings): the oracle re-implements their conditions with the reference mesh containment",
        "slow search (finitely many simples) is exercised for bases of maximum length <= 4 (5 thorough): the pin-word table for length 6 alone costs ~25 s",
    ],
    "trusted_base": ["PinWords.has_finite_simples (C16) for the FinitelyManySimplesStrategy line"],
}

RU, CU, RD, CD = (1, 2, 0, 3), (2, 0, 1, 3), (1, 3, 0, 2), (2, 0, 3, 1)
P2134, P2143 = (1, 0, 2, 3), (1, 0, 3, 2)
NEEDED = [RU, CU, RD, CD, P2134, P2143]
SH = frozenset([(0, 1), (0, 2), (1, 0), (1, 1), (1, 2), (2, 1), (2, 2)])


def fstrip(t):
    return tuple(v - 1 for v in t[1:]) if t[0] == 0 else t


def bstrip(t):
    return t[:-1] if t[-1] == len(t) - 1 else t


def z_skewind(t):
    return t[0] == 0 and not ref.is_skew_decomposable(fstrip(t))


def z_sumind(t):
    return t[0] == 0 and not ref.is_sum_decomposable(fstrip(t))


def last_sum_comp(t):
    n = len(t)
    for i in range(1, n + 1):
        if set(t[n - i :]) == set(range(n - i, n)):
            return ref.std(t[n - i :])
    raise engine.HarnessError("no last sum component")


def last_skew_comp(t):
    n = len(t)
    for i in range(1, n + 1):
        if set(t[n - i :]) == set(range(i)):
            return ref.std(t[n - i :])
    raise engine.HarnessError("no last skew component")


def _inc(t):
    return all(a < b for a, b in zip(t, t[1:]))


def _dec(t):
    return all(a > b for a, b in zip(t, t[1:]))


def ext_rd2134(t):
    if t[0] != 0:
        return False
    q = fstrip(t)
    lc = last_sum_comp(q)
    return not ref.mesh_contains(q, (1, 0), SH) and (not _dec(lc) or len(lc) == 1)


def ext_ru2143(t):
    q = fstrip(t)
    return not ref.mesh_contains(q, (0, 1), SH) and not _inc(last_skew_comp(q))


SPEC = {
    "RuCuCoreStrategy": ({RU, CU}, z_skewind),
    "RdCdCoreStrategy": ({RD, CD}, z_sumind),
    "RuCuRdCdCoreStrategy": ({RD, CD, RU, CU}, lambda t: t[0] == 0),
    "RuCuCdCoreStrategy": ({RU, CU, CD}, z_skewind),
    "RdCdCuCoreStrategy": ({RD, CD, CU}, lambda t: z_sumind(bstrip(t))),
    "RdCuCoreStrategy": ({RD, CU}, lambda t: z_skewind(t) and z_sumind(bstrip(t))),
    "Rd2134CoreStrategy": ({RD, P2134}, ext_rd2134),
    "Ru2143CoreStrategy": ({RU, P2143}, ext_ru2143),
}


def selftest():
    names = {c.__name__ for c in core_strategies}
    if names != set(SPEC):
        raise engine.HarnessError(f"core strategy list changed: {sorted(names ^ set(SPEC))}")
    if [c.__name__ for c in long_enumeration_strategies] != ["FinitelyManySimplesStrategy"] or fast_enumeration_strategies[0].__name__ != "InsertionEncodingStrategy":
        raise engine.HarnessError("strategy lists changed")


def oracle_core(perms):
    """names of the core strategies that apply, and whether only via a non-identity image"""
    res, only_sym = set(), False
    base = frozenset(perms)
    images = {g: frozenset(ref.sym_perm(g, p) for p in base) for g in ref.SYMS}
    for name, (need, ext) in SPEC.items():
        hits = [g for g, img in images.items() if all(any(ref.contains(p, b) for b in img) for p in need) and all(ext(t) for t in img - need)]
        if hits:
            res.add(name)
            if "id" not in hits and images["id"] not in [images[g] for g in hits]:
                only_sym = True
    return res, only_sym


def _names(strats):
    return sorted(type(s).__name__ for s in strats)


def check_basis(case):
    perms = [tuple(p) for p in case["perms"]]
    slow = case.get("slow", False)
    core, only_sym = oracle_core(perms)
    insenc = o_rightmost(perms) or o_maximum(perms)
    want_fast = sorted(core | ({"InsertionEncodingStrategy"} if insenc else set()))
    variants = [("given", perms), ("reversed", perms[::-1]), ("repeated", perms + perms[:1])]
    for g in ref.SYMS:
        for vname, var in variants:
            img = [Perm(ref.sym_perm(g, p)) for p in var]
            got = _names(find_strategies(img, long_runnning=False))
            if vname == "given" and _names(find_strategies(iter(img), long_runnning=False)) != got:
                return BAD("find_strategies_iterator_argument", {"symmetry": g, "basis": [list(p) for p in img]})
            if got != want_fast or len(got) != len(set(got)):
                return BAD("find_strategies_fast", {"symmetry": g, "variant": vname, "basis": [list(p) for p in img], "got": got, "want": want_fast})
            if g != "id" and vname != "given":
                continue
            for cls in core_strategies:
                if cls(img).applies() != (cls.__name__ in core) or cls(iter(img)).applies() != (cls.__name__ in core):
                    return BAD("applies_" + cls.__name__, {"symmetry": g, "basis": [list(p) for p in img], "got": cls(img).applies(), "want": cls.__name__ in core})
    # replayable mini-history: the same class given with a redundant element (a one-point
    # extension of a basis element, usually not of the prescribed form) before and after the
    # original basis - the answer must depend on the basis as given, not on earlier queries
    first = perms[0]
    ext = tuple(v + 1 for v in first) + (0,)  # new minimum at the end: contains `first`
    if len(ext) <= 6:
        red = perms + [ext]
        rcore, _ = oracle_core(red)
        rins = o_rightmost(red) or o_maximum(red)
        want_red = sorted(rcore | ({"InsertionEncodingStrategy"} if rins else set()))
        for which, basis_now, want_now in (("redundant", red, want_red), ("original_after_redundant", perms, want_fast), ("redundant_again", red, want_red)):
            got = _names(find_strategies([Perm(p) for p in basis_now], long_runnning=False))
            if got != want_now:
                return BAD("find_strategies_history", {"which": which, "basis": [list(p) for p in basis_now], "got": got, "want": want_now})
    if slow:
        for g in ("id", "rot", "i") if case.get("slow_images", True) else ("id",):
            img = [Perm(ref.sym_perm(g, p)) for p in perms]
            fin = PW.has_finite_simples(img)
            want_slow = sorted(want_fast + (["FinitelyManySimplesStrategy"] if fin else []))
            got = _names(find_strategies(img))
            got2 = _names(find_strategies(img, True))
            if got != want_slow or got2 != want_slow:
                return BAD("find_strategies_slow", {"symmetry": g, "basis": [list(p) for p in img], "got": got, "want": want_slow})
            fast = _names(find_strategies(img, False))
            if sorted(set(got) - {"FinitelyManySimplesStrategy"}) != fast:
                return BAD("quick_is_not_slow_minus_slow_strategies", {"basis": [list(p) for p in img], "slow": got, "quick": fast})
    labels = sorted(core) or ["no_core_strategy"]
    if only_sym:
        labels.append("only_via_symmetry")
    if insenc:
        labels.append("insertion_encoding")
    return OK(bool(core), *labels)


def check_form(case):
    """One strategy's needed patterns plus a single further element: the strategy (and every
    other core strategy) applies exactly when the oracle says so.  A cheap check, swept over
    every further element up to a length the full check cannot afford."""
    need = sorted(SPEC[case["name"]][0])
    perms = [tuple(p) for p in need] + [tuple(case["x"])]
    core, _ = oracle_core(perms)
    img = [Perm(p) for p in perms]
    for cls in core_strategies:
        got = cls(img).applies()
        if got != (cls.__name__ in core):
            return BAD("form_" + cls.__name__, {"basis": [list(p) for p in perms], "got": got, "want": cls.__name__ in core})
    got = [n for n in _names(find_strategies(img, long_runnning=False)) if n != "InsertionEncodingStrategy"]
    if got != sorted(core):
        return BAD("form_find_strategies", {"basis": [list(p) for p in perms], "got": got, "want": sorted(core)})
    return OK(len(case["x"]) >= 5, case["name"], "applies" if case["name"] in core else "does_not_apply", "len%d" % len(case["x"]))


CHECKS = {"basis": check_basis, "form": check_form}


# ------------------------------------------------------------------ generators
@st.composite
def extension(draw):
    """a '1 (+) alpha' candidate"""
    alpha = list(draw(gen.perms(1, 4)))
    kind = draw(st.sampled_from(["any", "skewind", "sumind", "fixed_end", "mesh_ok", "no_zero", "blocks", "blocks"]))
    if kind == "blocks":
        # alpha a direct or skew sum of two or three indecomposable-ish blocks of 2-3 points
        # (elements of 6-8 points: the decomposability tests must look beyond the first and last entry)
        parts = [tuple(draw(gen.perms(2, 3))) for _ in range(draw(st.integers(2, 3)))]
        alpha = list(ref.direct_sum(*parts) if draw(st.booleans()) else ref.skew_sum(*parts))
    a = tuple(alpha)
    if kind == "skewind" and ref.is_skew_decomposable(a):
        alpha = [v for v in ref.sym_perm("c", a)] if not ref.is_skew_decomposable(ref.sym_perm("c", a)) else alpha
    if kind == "sumind" and ref.is_sum_decomposable(a):
        alpha = [v for v in ref.sym_perm("c", a)] if not ref.is_sum_decomposable(ref.sym_perm("c", a)) else alpha
    p = [0] + [v + 1 for v in alpha]
    if kind == "fixed_end" or draw(st.integers(0, 4)) == 0:
        p = p + [len(p)]
    if kind == "no_zero":
        p = list(draw(gen.perms(2, 5)))
    return p


# sum- (skew-) indecomposable blocks of 2-4 points: their sums are decomposable in ways that the
# first and the last entry alone do not reveal
_IND_SUM = [p for p in ref.perms_upto(4, 2) if not ref.is_sum_decomposable(p)]
_IND_SKEW = [p for p in ref.perms_upto(4, 2) if not ref.is_skew_decomposable(p)]


@st.composite
def basis_cases(draw, slow_max):
    if draw(st.integers(0, 3)) == 0:
        # exactly the needed patterns of one strategy plus one or two long extensions built from
        # blocks: the strategy is reported iff the prescribed form holds for each of them
        name = draw(st.sampled_from(sorted(SPEC)))
        perms = [list(p) for p in sorted(SPEC[name][0])]
        for _ in range(draw(st.integers(1, 2))):
            # the kind of sum the strategy's form forbids (so the true answer is usually 'not reported'),
            # or the other kind (usually 'reported')
            forbids_direct = name in ("RdCdCoreStrategy", "RdCdCuCoreStrategy", "RdCuCoreStrategy")
            direct = forbids_direct if draw(st.integers(0, 3)) else not forbids_direct
            pool = [b for b in (_IND_SUM if direct else _IND_SKEW) if len(b) >= 3]
            parts = [draw(st.sampled_from(pool)) for _ in range(draw(st.sampled_from([1, 2, 2, 2, 3])))]
            q = ref.direct_sum(*parts) if direct else ref.skew_sum(*parts)
            x = [0] + [v + 1 for v in q]
            if draw(st.integers(0, 3)) == 0:
                x = x + [len(x)]
            perms.append(x)
        g = draw(st.sampled_from(ref.SYMS))
        perms = [list(ref.sym_perm(g, tuple(p))) for p in perms]
        return {"perms": perms, "slow": False, "slow_images": False}
    k = draw(st.integers(0, 4))
    chosen = draw(st.lists(st.sampled_from(NEEDED), min_size=k, max_size=k, unique=True))
    perms = [list(p) for p in chosen]
    # sometimes replace a needed pattern by a sub-pattern (still excludes it from the class)
    if perms and draw(st.integers(0, 3)) == 0:
        i = draw(st.integers(0, len(perms) - 1))
        j = draw(st.integers(0, 3))
        perms[i] = list(ref.delete_point(tuple(perms[i]), j))
    for _ in range(draw(st.integers(0, 3))):
        perms.append(draw(extension()))
    if not perms:
        perms.append(draw(extension()))
    perms = [p for p in perms if len(p) >= 2] or [[0, 1]]
    g = draw(st.sampled_from(ref.SYMS))
    perms = [list(ref.sym_perm(g, tuple(p))) for p in perms]
    maxlen = max(len(p) for p in perms)
    return {"perms": perms, "slow": maxlen <= slow_max and draw(st.integers(0, 2)) == 0, "slow_images": maxlen <= 4}


def shard_generated(acc, shard, nshards, n, slow_max):
    engine.hyp_run(acc, "basis", check_basis, basis_cases(slow_max), n, shard)


def shard_exhaustive(acc, shard, nshards, _unused):
    """every subset of the six needed patterns (64), alone and with the extension 0 2 1 3 / 0 1"""
    i = 0
    for r in range(1, 7):
        for combo in itertools.combinations(NEEDED, r):
            for extra in ([], [[0, 1, 2]], [[0, 2, 1]], [[0, 2, 3, 1]]):
                if i % nshards == shard:
                    acc.record("basis", check_basis, {"perms": [list(p) for p in combo] + extra, "slow": r <= 2 and not extra})
                i += 1


def shard_form(acc, shard, nshards, maxlen):
    """every strategy x every further element of length 2..maxlen"""
    i = 0
    for name in sorted(SPEC):
        for n in range(2, maxlen + 1):
            for x in itertools.permutations(range(n)):
                if i % nshards == shard:
                    acc.record("form", check_form, {"name": name, "x": list(x)})
                i += 1


def run(acc, tier):
    engine.pmap(acc, shard_form, extra=(7 if tier == "quick" else 8,))
    if tier == "quick":
        engine.pmap(acc, shard_exhaustive, extra=(0,))
        engine.pmap(acc, shard_generated, extra=(40, 4))
    else:
        engine.pmap(acc, shard_exhaustive, extra=(0,))
        engine.pmap(acc, shard_generated, extra=(250, 5))

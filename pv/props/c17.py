"""C17 - BiSC output describes its input: sound up to n, complete up to m, irredundant."""
import contextlib
import io
import itertools
import signal

from hypothesis import strategies as st

from permuta import MeshPatt, Perm
from permuta.bisc import bisc as bisc_mod
from permuta.bisc import bisc_subfunctions as sub
from permuta.bisc.bisc import auto_bisc, bisc

from .. import engine, gen
from .. import oracle as ref
from ..engine import BAD, OK

META = {
    "level": "exploration",
    "rule": (
        "generated finite sets A of permutations of length <= n <= 5 (given as lists of ranks) in five shapes: "
        "Bernoulli(rho) with rho drawn first, dense, classical classes, mesh classes, arbitrary sets with/without "
        "the empty permutation; 1 <= m <= min(n, 4); each A is fed as list, dict and predicate. Oracle (reference "
        "mesh containment): soundness up to n, completeness up to m, irredundancy of every shaded cell, equality of "
        "the three input forms; the algorithm's private containment tests and maximal_mesh_pattern_of_occurrence "
        "against the reference model; the driver's two sanity checks (patterns_suffice_for_good / _for_bad) two-sided on generated patterns and good/bad dictionaries with intruders placed at chosen lengths (only at the last length L in half the cases), a missing length key and stop_on_failure; every basis from run_clean_up hits every bad permutation it was tested on and "
        "round-trips through to_sg_format; auto_bisc on 'avoids P' properties must return patterns whose avoidance "
        "coincides with the property on all 46 234 permutations of length <= 8 (time budget hit = inconclusive). "
        "Non-trivial: the learned output is non-empty and has a pattern of length >= 2 or a non-empty shading. "
        "Distinct = case content."
        " Sparse n = 6 inputs: all permutations of length <= 2, half of length 3, one to six members of length 4-6."
    ),
    "no_shrink": ["auto"],
    "assumptions": [
        "dict inputs carry every key 0..n (the algorithm indexes them directly); predicates are plain functions (types.FunctionType), as the driver requires",
    ],
}


def _perm_list(n):
    return list(ref.perms_upto(n))


def _quiet(fn, *args, **kw):
    buf = io.StringIO()
    with contextlib.redirect_stdout(buf):
        return fn(*args, **kw)


def _sg_patterns(SG):
    """[(perm tuple, frozenset shading)] of a {length: {Perm: [shadings]}} structure"""
    out = []
    for k in sorted(SG):
        for patt in sorted(SG[k]):
            for sh in SG[k][patt]:
                out.append((tuple(patt), frozenset(tuple(c) for c in sh)))
    return out


def _norm(SG):
    return {k: {tuple(p): sorted(sorted(tuple(c) for c in sh) for sh in shs) for p, shs in d.items()} for k, d in SG.items() if d}


def selftest():
    # BiSC on Av(231) up to length 5 must learn exactly the classical pattern 231
    A = [Perm(p) for n in range(6) for p in ref.av([(1, 2, 0)], n)]
    SG = _quiet(bisc, A, 3, 5)
    if _sg_patterns(SG) != [((1, 2, 0), frozenset())]:
        raise engine.HarnessError("BiSC harness self-test: Av(231) not learned as {231}: " + repr(SG))


def check_bisc(case):
    n, m = case["n"], case["m"]
    universe = _perm_list(n)
    Aset = {universe[r] for r in case["ranks"]}
    A_list = [Perm(p) for p in universe if p in Aset]
    A_dict = {k: [Perm(p) for p in ref.perms(k) if p in Aset] for k in range(n + 1)}
    frozen = frozenset(Aset)

    def A_fn(perm):
        return tuple(perm) in frozen

    SG = _quiet(bisc, list(A_list), m, n)
    SG_dict = _quiet(bisc, A_dict, m, n)
    SG_fn = _quiet(bisc, A_fn, m, n)
    if _norm(SG) != _norm(SG_dict) or _norm(SG) != _norm(SG_fn):
        return BAD("input_forms_differ", {"list": repr(_norm(SG)), "dict": repr(_norm(SG_dict)), "predicate": repr(_norm(SG_fn))})
    # a list is a collection: its order (lengths interleaved, reversed, a tuple, an iterator-free copy) is immaterial
    for name, variant in (
        ("lexicographic_ignoring_length", sorted(A_list, key=tuple)),
        ("reversed", list(reversed(A_list))),
        ("by_last_entries", sorted(A_list, key=lambda P: tuple(reversed(P)))),
    ):
        if _norm(_quiet(bisc, list(variant), m, n)) != _norm(SG):
            return BAD("list_order_changes_output", {"order": name, "list": [list(P) for P in variant]})
    patts = _sg_patterns(SG)
    if any(len(p) > m for p, _ in patts):
        return BAD("pattern_longer_than_m", {"patterns": [(list(p), sorted(s)) for p, s in patts]})
    # soundness: members of A (length <= n) avoid every learned pattern
    for a in sorted(Aset, key=ref.perm_key):
        for p, sh in patts:
            if ref.mesh_contains(a, p, sh):
                return BAD("unsound", {"member": list(a), "pattern": [list(p), sorted(sh)]})
    # completeness: every permutation of length <= m outside A contains a learned pattern
    for t in ref.perms_upto(m):
        if t not in Aset and not any(ref.mesh_contains(t, p, sh) for p, sh in patts):
            return BAD("incomplete", {"non_member": list(t), "patterns": [(list(p), sorted(s)) for p, s in patts]})
    # irredundancy: no shaded cell can be dropped
    for p, sh in patts:
        for c in sorted(sh):
            weaker = sh - {c}
            occurs = any(ref.mesh_contains(a, p, weaker) for a in Aset)
            implied = any(len(q) < len(p) and ref.mesh_in_mesh(q, qs, p, weaker) for q, qs in patts)
            if not occurs and not implied:
                return BAD("redundant_cell", {"pattern": [list(p), sorted(sh)], "cell": c})
    # the algorithm's own sanity checks agree with the reference model
    A_full = {k: [Perm(p) for p in ref.perms(k) if p in Aset] for k in range(n + 1)}
    B_full = {k: [Perm(p) for p in ref.perms(k) if p not in Aset] for k in range(n + 1)}
    if SG:
        good_ok, _ = _quiet(sub.patterns_suffice_for_good, SG, n, A_full)
        if not good_ok:
            return BAD("patterns_suffice_for_good_false", {})
        bad_ok, avoiding = _quiet(sub.patterns_suffice_for_bad, SG, n, B_full)
        want_avoiding = [t for k in range(n + 1) for t in ref.perms(k) if t not in Aset and not any(ref.mesh_contains(t, p, sh) for p, sh in patts)]
        if bad_ok != (not want_avoiding):
            return BAD("patterns_suffice_for_bad", {"got": bad_ok, "oracle_avoiding_bad_perms": [list(t) for t in want_avoiding[:3]]})
        # clean-up phase
        bad = _check_clean_up(SG, B_full, n, patts)
        if bad:
            return bad
    nt = bool(patts) and any(len(p) >= 2 or sh for p, sh in patts)
    labels = ["empty_output" if not patts else "nonempty_output"]
    if any(len(p) >= 3 for p, _ in patts):
        labels.append("pattern_len3plus")
    if any(sh for _, sh in patts):
        labels.append("shaded")
    return OK(nt, *labels)


def _check_clean_up(SG, B, bm, patts):
    nonempty = [k for k in SG if SG[k]]
    if not nonempty or min(SG.keys()) not in nonempty:
        return None
    width = len(SG[min(SG.keys())])
    monitors = 1
    for shs in SG[min(SG.keys())].values():
        monitors *= len(shs)
    if monitors > 64:
        return None
    bases, numbs = _quiet(sub.run_clean_up, SG, B, bm, limit_monitors=width + 1)
    kmin = min(SG.keys())
    for basis in bases:
        sg = sub.to_sg_format(basis, numbs)
        bp = _sg_patterns(sg)
        # round trip: exactly the patterns named by the basis ids
        want = sorted((tuple(numbs[i][0]), frozenset(tuple(c) for c in numbs[i][1])) for i in basis)
        if sorted(bp) != want:
            return BAD("to_sg_format_roundtrip", {"basis": [list(i) for i in basis]})
        if not set(bp) <= set(patts):
            return BAD("basis_pattern_not_learned", {"basis": [list(i) for i in basis]})
        for L in range(kmin + 1, bm + 1):
            for b in B[L]:
                if not any(ref.mesh_contains(tuple(b), p, sh) for p, sh in bp):
                    return BAD("clean_up_basis_misses_bad_perm", {"basis": [(list(p), sorted(s)) for p, s in bp], "bad_perm": list(b)})
    return None


def check_private(case):
    """the algorithm's own containment tests vs reference mesh containment"""
    t = tuple(case["t"])
    p = tuple(case["p"])
    Rs = [frozenset(tuple(c) for c in R) for R in case["Rs"]]
    S = frozenset(tuple(c) for c in case["S"])
    T, P = Perm(t), Perm(p)
    want = any(ref.mesh_contains(t, p, R) for R in Rs)
    got = sub.perm_contains_cl_patt_many_shadings(T, P, [set(R) for R in Rs])
    if got != want:
        return BAD("perm_contains_cl_patt_many_shadings", {"got": got, "want": want})
    wantm = any(ref.mesh_in_mesh(p, R, t, S) for R in Rs)
    gotm = sub.mesh_contains_cl_patt_many_shadings(T, set(S), P, [set(R) for R in Rs])
    if gotm != wantm:
        return BAD("mesh_contains_cl_patt_many_shadings", {"got": gotm, "want": wantm})
    gotp = sub.mesh_contains_cl_patt_many_shadings_with_positions(T, set(S), list(P.occurrences_in(T)), [set(R) for R in Rs])
    if gotp != wantm:
        return BAD("mesh_contains_cl_patt_many_shadings_with_positions", {"got": gotp, "want": wantm})
    sgd = {len(p): {P: [set(R) for R in Rs]}}
    if sub.perm_contains_cl_patts_many_shadings(T, sgd) != want:
        return BAD("perm_contains_cl_patts_many_shadings", {})
    # maximal shading of each occurrence
    for o in ref.occ(p, t)[:6]:
        cur = sub.maximal_mesh_pattern_of_occurrence(T, o)
        k = len(p)
        if o not in ref.mesh_occ(p, frozenset(cur), t):
            return BAD("maximal_mesh_pattern_not_an_occurrence", {"occurrence": list(o), "shading": sorted(cur)})
        for c in [(x, y) for x in range(k + 1) for y in range(k + 1) if (x, y) not in cur]:
            if o in ref.mesh_occ(p, frozenset(cur) | {c}, t):
                return BAD("maximal_mesh_pattern_not_maximal", {"occurrence": list(o), "cell": c})
    return OK(bool(ref.occ(p, t)) and any(Rs), "private")


def _sg_of(patts, pad):
    SG = {}
    for p, sh in patts:
        SG.setdefault(len(p), {}).setdefault(Perm(p), []).append(set(sh))
    if pad:
        for k in range(max(SG) + 1):
            SG.setdefault(k, {})
        SG = dict(sorted(SG.items()))
    return SG


def check_suffice(case):
    """The two sanity checks the driver relies on (patterns_suffice_for_good / _for_bad), as
    two-sided tests: generated patterns, generated good / bad dictionaries with intruders placed
    at chosen lengths (in particular only at the last length L), a missing length key, and
    stop_on_failure.  Oracle: reference mesh containment, first offending length wins."""
    patts = [(tuple(b[0]), frozenset(tuple(c) for c in b[1])) for b in case["patts"]]
    L = case["L"]
    SG = _sg_of(patts, case.get("pad", False))

    def contains(t):
        return any(ref.mesh_contains(t, p, sh) for p, sh in patts)

    intr_good = {tuple(t) for t in case.get("intruders_good", [])}
    intr_bad = {tuple(t) for t in case.get("intruders_bad", [])}
    missing = case.get("missing")
    A, B = {}, {}
    for n in range(L + 1):
        A[n] = [Perm(t) for t in ref.perms(n) if not contains(t) or t in intr_good]
        B[n] = [Perm(t) for t in ref.perms(n) if (contains(t) and t not in intr_good) or t in intr_bad]
    if missing is not None:
        A.pop(missing, None)
        B.pop(missing, None)
    for name, fn, D, offends in (("good", sub.patterns_suffice_for_good, A, contains), ("bad", sub.patterns_suffice_for_bad, B, lambda t: not contains(t))):
        for stop in (False, True):
            want = (True, [])
            for n in range(L + 1):
                if n not in D:
                    want = (False, [])
                    break
                off = [tuple(a) for a in D[n] if offends(tuple(a))]
                if off:
                    want = (False, off[:1] if stop else off)
                    break
            ok, lst = _quiet(fn, SG, L, D, stop)
            got = (bool(ok), [tuple(x) for x in lst])
            if got != want:
                return BAD(f"patterns_suffice_for_{name}", {"stop_on_failure": stop, "got": [got[0], [list(t) for t in got[1][:4]]], "want": [want[0], [list(t) for t in want[1][:4]]]})
    lens_g = sorted({len(t) for t in intr_good})
    labels = ["intruder_only_at_L" if lens_g == [L] else "intruders" if lens_g else "no_intruder"]
    if missing is not None:
        labels.append("missing_key")
    return OK(bool(intr_good or intr_bad), *labels)


class _Timeout(Exception):
    pass


def _alarm(_sig, _frm):
    raise _Timeout()


def check_auto(case):
    """auto_bisc on the property 'avoids P'."""
    patts = [(tuple(b[0]), frozenset(tuple(c) for c in b[1])) for b in case["patts"]]
    budget = case.get("budget_s", 120)

    def prop(perm):
        t = tuple(perm)
        return not any(ref.mesh_contains(t, p, sh) for p, sh in patts)

    old = signal.signal(signal.SIGALRM, _alarm)
    signal.alarm(budget)
    try:
        sg = _quiet(auto_bisc, prop)
    except _Timeout:
        return OK(False, "auto_bisc_inconclusive_budget")
    finally:
        signal.alarm(0)
        signal.signal(signal.SIGALRM, old)
    if sg is None:
        return OK(False, "auto_bisc_gave_up")
    learned = _sg_patterns(sg)
    for t in ref.perms_upto(8):
        has = not any(ref.mesh_contains(t, p, sh) for p, sh in learned)
        if has != prop(t):
            return BAD("auto_bisc_description_wrong", {"property_avoids": case["patts"], "returned": [(list(p), sorted(s)) for p, s in learned], "perm": list(t)})
    return OK(True, "auto_bisc_described")


CHECKS = {"bisc": check_bisc, "private": check_private, "auto": check_auto, "suffice": check_suffice}

HARD_AUTO = [
    [[2, 0, 1], [[0, 0], [0, 3], [1, 3], [2, 1], [2, 3], [3, 1]]],
    [[1, 0, 2], [[0, 0], [1, 1], [1, 2], [2, 0], [2, 2], [3, 0], [3, 1], [3, 2]]],
    [[1, 0, 2], [[0, 0], [0, 3], [1, 2], [1, 3], [2, 1], [3, 0], [3, 1], [3, 2], [3, 3]]],
]


# ------------------------------------------------------------------ generators
@st.composite
def bisc_cases(draw, max_n=5):
    n = draw(st.integers(1, max_n))
    m = draw(st.integers(1, min(n, 4)))
    universe = _perm_list(n)
    shape = draw(st.sampled_from(["bernoulli", "dense", "classical", "mesh", "arbitrary"]))
    if shape in ("bernoulli", "dense", "arbitrary"):
        rho = 0.9 if shape == "dense" else draw(st.sampled_from([0.1, 0.3, 0.5, 0.7]))
        bits = draw(st.lists(st.floats(0, 1, allow_nan=False), min_size=len(universe), max_size=len(universe)))
        ranks = [i for i, b in enumerate(bits) if b < rho]
        if shape == "arbitrary" and draw(st.booleans()):
            ranks = [r for r in ranks if r != 0]  # without the empty permutation
        elif 0 not in ranks and draw(st.booleans()):
            ranks = [0] + ranks
    else:
        if shape == "classical":
            basis = [tuple(p) for p in draw(st.lists(gen.perms(2, 4), min_size=1, max_size=2))]
        else:
            basis = [(tuple(b[0]), frozenset(tuple(c) for c in b[1])) for b in draw(st.lists(gen.mesh_patterns(1, 3, "sparse"), min_size=1, max_size=2))]
        ranks = [i for i, t in enumerate(universe) if ref.avoids_all(t, basis)]
    return {"n": n, "m": m, "ranks": ranks}


@st.composite
def sparse_long_cases(draw):
    """n = 6 with few long members: every permutation of length <= 2, a random half of length 3
    (so the shortest learned patterns have length 3) and a handful of members of length 4-6 that
    are not closed under deleting entries - cheap to mine, and the members are long enough for
    occurrences followed by several unused entries."""
    universe = _perm_list(6)
    ranks = [i for i, t in enumerate(universe) if len(t) <= 2]
    for i, t in enumerate(universe):
        if len(t) == 3 and draw(st.booleans()):
            ranks.append(i)
    longer = [i for i, t in enumerate(universe) if len(t) >= 4]
    ranks += draw(st.lists(st.sampled_from(longer), min_size=1, max_size=6, unique=True))
    return {"n": 6, "m": draw(st.sampled_from([3, 3, 4])), "ranks": sorted(ranks)}


@st.composite
def private_cases(draw):
    p, t = draw(gen.planted(3, 6))
    k = len(p)
    Rs = draw(st.lists(gen.shadings(k, draw(st.sampled_from(["sparse", "sparse", "half", "empty"]))), min_size=0, max_size=3))
    S = draw(gen.shadings(len(t), draw(st.sampled_from(["dense", "half", "lines", "full", "empty"]))))
    return {"t": t, "p": p, "Rs": Rs, "S": S}


@st.composite
def suffice_cases(draw, max_L):
    patts = [draw(gen.mesh_patterns(1, 3, draw(st.sampled_from(["sparse", "sparse", "half", "empty"])))) for _ in range(draw(st.integers(1, 3)))]
    L = draw(st.integers(max(len(b[0]) for b in patts), max_L))
    rp = [(tuple(b[0]), frozenset(tuple(c) for c in b[1])) for b in patts]
    case = {"patts": patts, "L": L, "pad": draw(st.booleans())}
    for key, want_contains in (("intruders_good", True), ("intruders_bad", False)):
        mode = draw(st.sampled_from(["none", "last", "last", "any"]))
        if mode == "none":
            continue
        lengths = [L] if mode == "last" else list(range(L + 1))
        pool = [t for n in lengths for t in ref.perms(n) if any(ref.mesh_contains(t, p, sh) for p, sh in rp) == want_contains]
        if pool:
            idx = draw(st.lists(st.integers(0, len(pool) - 1), min_size=1, max_size=3, unique=True))
            case[key] = [list(pool[i]) for i in sorted(idx)]
    if draw(st.integers(0, 7)) == 0:
        case["missing"] = draw(st.integers(0, L))
    return case


@st.composite
def auto_cases(draw, budget):
    k = draw(st.integers(1, 2))
    patts = []
    for _ in range(k):
        if draw(st.booleans()):
            patts.append([list(draw(gen.perms(2, 3))), []])
        else:
            patts.append(draw(gen.mesh_patterns(2, 3, draw(st.sampled_from(["sparse", "sparse", "half"])))))
    return {"patts": patts, "budget_s": budget}


def shard_generated(acc, shard, nshards, n_bisc, n_priv, n_auto, budget):
    engine.hyp_run(acc, "bisc", check_bisc, bisc_cases(5 if n_bisc < 200 else 6), n_bisc, shard)
    engine.hyp_run(acc, "bisc", check_bisc, sparse_long_cases(), max(8, n_bisc // 5), shard)
    engine.hyp_run(acc, "private", check_private, private_cases(), n_priv, shard)
    engine.hyp_run(acc, "suffice", check_suffice, suffice_cases(5 if n_bisc < 200 else 6), max(20, n_priv // 3), shard)
    if n_auto:
        engine.hyp_run(acc, "auto", check_auto, auto_cases(budget), n_auto, shard)
    # properties on which the driver's clean-up first picks a basis that does not survive the
    # re-check against the longer bad permutations (found by searching random dense mesh patterns
    # of length 3 on the unchanged tree for the driver's "A bad basis was chosen" path, about 1 in
    # 150): a corpus that steers into that branch; the oracle is the general one
    for i, patt in enumerate(HARD_AUTO):
        if i % nshards == shard:
            acc.record("auto", check_auto, {"patts": [patt], "budget_s": max(budget, 120)})


def run(acc, tier):
    if tier == "quick":
        engine.pmap(acc, shard_generated, extra=(40, 80, 1, 60))
    else:
        engine.pmap(acc, shard_generated, extra=(2500, 5000, 16, 120))
        engine.fuzz(acc, "bisc", CHECKS, 15000, max_len=48, corpus_seeds=[[3, 2] + [1, 0] * 17])

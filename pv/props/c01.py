"""C01 - classical occurrences, containment and counts are exact."""
import itertools
import math

from hypothesis import strategies as st

from permuta import MeshPatt, Perm

from .. import engine, gen
from .. import oracle as ref
from ..engine import BAD, OK

META = {
    "level": "exploration",
    "rule": (
        "exhaustive: every (pattern, permutation) pair below the tier's length bounds, every entry point; "
        "generated: planted/random pairs, colour vectors, lists of patterns, and histories re-using one "
        "pattern object (obtained via Perm(), to_standard (memoised/shared), from_string, MeshPatt.pattern) "
        "against many targets, including lazily consumed searches that overlap in time. Non-trivial: |p|>=2, |t|>|p| and 0 < #occurrences < C(|t|,|p|); for histories "
        "additionally the same pattern object searched >= 2 times against different targets. Distinct = "
        "distinct case content."
        " Light pairs: independent (pattern of 5-7 points, target of 8-12 points) pairs, listing / count / boolean entry points against the reference (every such case counts as non-trivial)."
    ),
    "assumptions": ["oracle: itertools.combinations + order-isomorphism test (pv/oracle.py), no permuta code"],
}


def selftest():
    if ref.occ((1, 0), (1, 2, 3, 0)) != [(0, 3), (1, 3), (2, 3)]:
        raise engine.HarnessError("oracle occ self-test failed")
    if ref.occ((), (1, 0)) != [()]:
        raise engine.HarnessError("oracle empty-pattern self-test failed")
    for p in ref.perms(3):
        for t in ref.perms(4):
            if ref.occ(p, t) != [c for c in itertools.combinations(range(4), 3) if ref.std([t[i] for i in c]) == p]:
                raise engine.HarnessError("oracle occ disagrees with std-based definition")


def _nt(p, t, nocc):
    return len(p) >= 2 and len(t) > len(p) and 0 < nocc < math.comb(len(t), len(p))


def _entry_points(P, T, expected, skip_list=False):
    """Compare every boolean / counting entry point with the expected occurrence list."""
    n = len(expected)
    has = n > 0
    if not skip_list:
        got = list(P.occurrences_in(T))
        if got != expected:
            return ("occurrences_in", got)
    got = list(T.occurrences_of(P))
    if got != expected:
        return ("occurrences_of", got)
    checks = (
        ("contains", T.contains(P), has),
        ("avoids", T.avoids(P), not has),
        ("avoids_set", T.avoids_set([P]), not has),
        ("avoids_set_set", T.avoids_set({P}), not has),
        ("in", P in T, has),
        ("count_occurrences_of", T.count_occurrences_of(P), n),
        ("count_occurrences_in", P.count_occurrences_in(T), n),
        ("contained_in", P.contained_in(T), has),
        ("avoided_by", P.avoided_by(T), not has),
    )
    for name, got, want in checks:
        if got != want or type(got) is not type(want):
            return (name, got)
    return None


def check_pair(case):
    p, t = tuple(case[0]), tuple(case[1])
    expected = ref.occ(p, t)
    P, T = Perm(p), Perm(t)
    bad = _entry_points(P, T, expected)
    if bad:
        return BAD(bad[0], {"got": bad[1], "expected_occurrences": expected})
    # second search with the same (now memoised) pattern object must agree as well
    if list(P.occurrences_in(T)) != expected:
        return BAD("occurrences_in_second_use", {"expected_occurrences": expected})
    return OK(_nt(p, t, len(expected)), "contained" if expected else "avoided")


def check_coloured(case):
    p, t, pc, tc = tuple(case[0]), tuple(case[1]), list(case[2]), list(case[3])
    plain = ref.occ(p, t)
    expected = [c for c in plain if all(tc[c[k]] == pc[k] for k in range(len(p)))]
    got = list(Perm(p).occurrences_in(Perm(t), pc, tc))
    if got != expected:
        return BAD("coloured_occurrences", {"got": got, "expected": expected})
    return OK(len(p) >= 2 and 0 < len(expected) < len(plain), "coloured")


def check_multi(case):
    t, ps = tuple(case[0]), [tuple(p) for p in case[1]]
    T = Perm(t)
    flags = [ref.contains(t, p) for p in ps]
    P = [Perm(p) for p in ps]
    want = {
        "contains_all": all(flags),
        "avoids_all": not any(flags),
    }
    got = {
        "contains_all": T.contains(*P),
        "avoids_all": T.avoids(*P),
    }
    for key in want:
        if got[key] != want[key]:
            return BAD(key, {"got": got[key], "flags": flags})
    for name, cont in (("avoids_set_list", list(P)), ("avoids_set_tuple", tuple(P)), ("avoids_set_iter", iter(P)), ("avoids_set_set", set(P))):
        if T.avoids_set(cont) != want["avoids_all"]:
            return BAD(name, {"flags": flags})
    for Pi in P:
        if Pi.contained_in(T, T) != ref.contains(t, tuple(Pi)) or Pi.avoided_by(T, T) == ref.contains(t, tuple(Pi)):
            return BAD("contained_in_multi", {"patt": list(Pi)})
    return OK(len(ps) >= 2 and any(flags) and not all(flags), "multi")


_MAKERS = ("perm", "to_standard", "from_string", "meshpatt", "one_based")


def _make(how, p):
    if how == "perm":
        return Perm(p)
    if how == "to_standard":
        return Perm.to_standard(p)
    if how == "from_string":
        return Perm.from_string("".join(map(str, p))) if p else Perm(())
    if how == "meshpatt":
        return MeshPatt(Perm(p), []).pattern
    if how == "one_based":
        return Perm.one_based([v + 1 for v in p])
    raise engine.HarnessError(how)


_ENTRIES = ("list", "contains", "avoids", "in", "count_of", "count_in", "avoids_set", "of", "all")


def check_history(case):
    """case: {"pool": [[how, perm], ...], "ops": [[pool index, target, entry], ...]}"""
    pool = [(_make(how, tuple(p)), tuple(p)) for how, p in case["pool"]]
    used = {}
    gens = []  # lazily consumed searches: [iterator, expected, collected, pattern, target]
    overlapped = False
    for step, op in enumerate(case["ops"]):
        if op[0] == "lazy":
            P, p = pool[op[1] % len(pool)]
            t = tuple(op[2])
            it = P.occurrences_in(Perm(t)) if op[1] % 2 == 0 else Perm(t).occurrences_of(P)
            if any(g[3] is P and not g[5] for g in gens):
                overlapped = True
            gens.append([iter(it), ref.occ(p, t), [], P, t, False])
            used.setdefault(op[1] % len(pool), set()).add(t)
            continue
        if op[0] == "abort":
            # an earlier search on the same pattern object that was aborted part-way by an
            # asynchronous exception (at the k-th line of perm.py) is an earlier use too
            import permuta.patterns.perm as perm_mod

            from .. import disturb

            P, p = pool[op[1] % len(pool)]
            t = tuple(op[2])
            status, got, _ = disturb.abort_at(lambda: list(P.occurrences_in(Perm(t))), {perm_mod.__file__}, op[3])
            if status == "done" and got != ref.occ(p, t):
                return BAD("history_list", {"step": step, "pattern": list(p), "target": list(t), "got": got, "expected": ref.occ(p, t)})
            if status == "aborted":
                overlapped = True
            used.setdefault(op[1] % len(pool), set()).add(t)
            continue
        if op[0] == "adv":
            if not gens:
                continue
            g = gens[op[1] % len(gens)]
            for _ in range(op[2]):
                try:
                    g[2].append(next(g[0]))
                except StopIteration:
                    g[5] = True
                    break
            if g[2] != g[1][: len(g[2])] or (g[5] and g[2] != g[1]):
                return BAD("history_lazy", {"step": step, "pattern": list(g[3]), "target": list(g[4]), "got_so_far": g[2], "expected": g[1]})
            continue
        idx, t, entry = op
        P, p = pool[idx % len(pool)]
        t = tuple(t)
        T = Perm(t)
        expected = ref.occ(p, t)
        has = bool(expected)
        bad = None
        if entry == "list":
            got = list(P.occurrences_in(T))
            bad = got != expected
        elif entry == "of":
            got = list(T.occurrences_of(P))
            bad = got != expected
        elif entry == "contains":
            got = T.contains(P)
            bad = got != has
        elif entry == "avoids":
            got = T.avoids(P)
            bad = got == has
        elif entry == "in":
            got = P in T
            bad = got != has
        elif entry == "count_of":
            got = T.count_occurrences_of(P)
            bad = got != len(expected)
        elif entry == "count_in":
            got = P.count_occurrences_in(T)
            bad = got != len(expected)
        elif entry == "avoids_set":
            got = T.avoids_set([P])
            bad = got == has
        else:
            res = _entry_points(P, T, expected)
            got = res
            bad = res is not None
        if bad:
            return BAD("history_" + entry, {"step": step, "pattern": list(p), "target": list(t), "got": got, "expected": expected})
        used.setdefault(idx % len(pool), set()).add(t)
    for g in gens:
        if not g[5]:
            g[2].extend(g[0])
            g[5] = True
        if g[2] != g[1]:
            return BAD("history_lazy", {"step": "drain", "pattern": list(g[3]), "target": list(g[4]), "got": g[2], "expected": g[1]})
    nt = any(len(ts) >= 2 and len(pool[i][1]) >= 2 for i, ts in used.items())
    return OK(nt, "history_overlapping_lazy_searches" if overlapped else "history")


CHECKS = {"pair": check_pair, "coloured": check_coloured, "multi": check_multi, "history": check_history}


# ------------------------------------------------------------------ generators
def _pairs(max_p, max_t):
    for k in range(max_p + 1):
        for n in range(max_t + 1):
            for p in ref.perms(k):
                for t in ref.perms(n):
                    yield p, t


def shard_exhaustive(acc, shard, nshards, max_p, max_t):
    for i, (p, t) in enumerate(_pairs(max_p, max_t)):
        if i % nshards == shard:
            acc.record("pair", check_pair, [list(p), list(t)])


def check_light(case):
    """Listing, count, containment and avoidance only, for all patterns of length 3-5 in one
    target of the next length: buys a further target length over the full sweep."""
    t = tuple(case)
    T = Perm(t)
    for k in (3, 4, 5, 6):
        if k >= len(t):
            continue
        for p in ref.perms(k):
            P = Perm(p)
            want = ref.occ(p, t)
            got = list(P.occurrences_in(T))
            if got != want:
                return BAD("light_occurrences_in", {"pattern": list(p), "target": list(t), "got": got[:5], "want": want[:5]})
            has = bool(want)
            if T.contains(P) != has or T.avoids(P) == has or (P in T) != has or T.count_occurrences_of(P) != len(want):
                return BAD("light_entry_points", {"pattern": list(p), "target": list(t), "occurrences": len(want)})
    return OK(True, "light", key="light" + str(t))


CHECKS["light"] = check_light


def check_pair_light(case):
    """One pattern of 5-7 points and one independent target of 8-12 points: listing, count and
    the boolean entry points against the reference.  Cheap, so tens of thousands of pairs are
    drawn at sizes no sweep reaches (a search shortcut needs a long pattern and spare room)."""
    p, t = tuple(case[0]), tuple(case[1])
    P, T = Perm(p), Perm(t)
    want = ref.occ(p, t)
    got = list(P.occurrences_in(T))
    if got != want:
        return BAD("pair_light_occurrences_in", {"pattern": list(p), "target": list(t), "got": got[:5], "want": want[:5]})
    has = bool(want)
    if T.contains(P) != has or T.avoids(P) == has or (P in T) != has or T.count_occurrences_of(P) != len(want):
        return BAD("pair_light_entry_points", {"pattern": list(p), "target": list(t), "occurrences": len(want)})
    return OK(True, "pair_light_contained" if has else "pair_light_avoided")


CHECKS["pair_light"] = check_pair_light


def pair_light_cases():
    return st.tuples(gen.perms(5, 7), gen.perms(8, 12)).map(lambda pt: [list(pt[0]), list(pt[1])])


def shard_light(acc, shard, nshards, n):
    for i, t in enumerate(ref.perms(n)):
        if i % nshards == shard:
            acc.record("light", check_light, list(t))


@st.composite
def coloured_cases(draw):
    p, t = draw(gen.pattern_target(4, 8))
    pc = draw(gen.colours(len(p)))
    # bias target colours towards the pattern's colours so that matches exist
    tc = draw(st.lists(st.sampled_from(pc + gen.COLOUR_VALUES), min_size=len(t), max_size=len(t)))
    return [p, t, pc, tc]


@st.composite
def multi_cases(draw):
    t = draw(gen.perms(0, 8))
    ps = draw(st.lists(gen.perms(0, 4), min_size=0, max_size=4))
    return [list(t), [list(p) for p in ps]]


@st.composite
def history_cases(draw):
    pool = draw(st.lists(st.tuples(st.sampled_from(_MAKERS), gen.perms(0, 5)), min_size=1, max_size=3))
    nops = draw(st.integers(2, 8))
    ops = []
    for _ in range(nops):
        idx = draw(st.integers(0, len(pool) - 1))
        p = pool[idx][1]
        kind = draw(st.integers(0, 6))
        if kind == 0:
            ops.append(["lazy", idx, list(draw(_plant(p)))])
            continue
        if kind == 6:
            ops.append(["abort", idx, list(draw(_plant(p))), int(2 ** draw(st.floats(0, 8)))])
            continue
        if kind == 1:
            ops.append(["adv", draw(st.integers(0, 3)), draw(st.integers(1, 6))])
            continue
        mode = draw(st.sampled_from(["planted", "random", "short"]))
        if mode == "planted":
            t = draw(_plant(p))
        elif mode == "short":
            t = draw(gen.perms(0, max(0, len(p))))
        else:
            t = draw(gen.perms(0, 9))
        ops.append([idx, list(t), draw(st.sampled_from(_ENTRIES))])
    return {"pool": [[how, list(p)] for how, p in pool], "ops": ops}


@st.composite
def _plant(draw, p):
    """A target containing p: insert extra points into p one at a time."""
    t = list(p)
    for _ in range(draw(st.integers(0, 5))):
        i = draw(st.integers(0, len(t)))
        v = draw(st.integers(0, len(t)))
        t = [w + 1 if w >= v else w for w in t]
        t.insert(i, v)
    return t


def shard_generated(acc, shard, nshards, n_pair, n_col, n_multi, n_hist):
    engine.hyp_run(acc, "pair", check_pair, gen.pattern_target(6, 12), n_pair, shard)
    # long targets with short patterns: sizes no exhaustive sweep reaches, oracle still cheap
    engine.hyp_run(acc, "pair", check_pair, gen.planted(4, 24), max(10, n_pair // 5), shard)
    engine.hyp_run(acc, "pair_light", check_pair_light, pair_light_cases(), 30 * n_pair if n_pair < 1000 else 10 * n_pair, shard)
    engine.hyp_run(acc, "coloured", check_coloured, coloured_cases(), n_col, shard)
    engine.hyp_run(acc, "multi", check_multi, multi_cases(), n_multi, shard)
    engine.hyp_run(acc, "history", check_history, history_cases(), n_hist, shard)


def run(acc, tier):
    if tier == "quick":
        bounds = (4, 6)
        counts = (150, 100, 80, 60)
    else:
        bounds = (5, 8)
        counts = (20000, 8000, 6000, 5000)
        engine.fuzz(acc, "pair", CHECKS, 300000, corpus_seeds=[[3, 5, 10, 200, 30, 5, 9, 7, 1, 8, 2, 6], [2, 4, 9, 1, 3, 2]])
        engine.fuzz(acc, "coloured", CHECKS, 150000)
    engine.pmap(acc, shard_exhaustive, extra=bounds)
    engine.pmap(acc, shard_light, extra=(bounds[1] + 1,))
    engine.pmap(acc, shard_generated, extra=counts)
    acc.note("exhaustive_bound", {"max_pattern_len": bounds[0], "max_perm_len": bounds[1]})
    META["exhaustive"] = False
    META["extra_cov"] = {"exhaustive_subdomain": f"all pairs |p|<={bounds[0]}, |t|<={bounds[1]} (complete)"}

"""Conversions between JSON cases, oracle values and library objects."""
from permuta import BivincularPatt, CovincularPatt, MeshPatt, Perm, VincularPatt


def is_mesh_json(b):
    return isinstance(b, dict) or (len(b) > 0 and isinstance(b[0], list))


def biv_shading(k, idx, val):
    """Shading equivalent to adjacency requirements: full columns idx, full rows val."""
    return frozenset((x, y) for x in range(k + 1) for y in range(k + 1) if x in idx or y in val)


def to_ref(b):
    """JSON pattern -> oracle pattern: tuple (classical) or (tuple, frozenset) (mesh-type)."""
    if isinstance(b, dict):
        p = tuple(b["p"])
        return (p, biv_shading(len(p), set(b.get("idx", ())), set(b.get("val", ()))))
    if len(b) > 0 and isinstance(b[0], list):
        return (tuple(b[0]), frozenset(tuple(c) for c in b[1]))
    return tuple(b)


def to_lib(b):
    if isinstance(b, dict):
        p = Perm(b["p"])
        kind = b["t"]
        if kind == "biv":
            return BivincularPatt(p, b.get("idx", ()), b.get("val", ()))
        if kind == "vin":
            return VincularPatt(p, b.get("idx", ()))
        if kind == "cov":
            return CovincularPatt(p, b.get("val", ()))
        raise ValueError(kind)
    if len(b) > 0 and isinstance(b[0], list):
        return MeshPatt(Perm(b[0]), [tuple(c) for c in b[1]])
    return Perm(b)


def as_mesh_ref(b):
    r = to_ref(b)
    if isinstance(r, tuple) and len(r) == 2 and isinstance(r[1], frozenset):
        return r
    return (r, frozenset())


def mesh_json(p, sh):
    return [list(p), sorted(list(c) for c in sh)]


def biv_views(p, sh):
    """If the shading is exactly a union of full columns and full rows: the same pattern as
    BivincularPatt (and VincularPatt / CovincularPatt when only columns / rows), else [].
    [(kind, library object)]"""
    p = tuple(p)
    sh = frozenset(tuple(c) for c in sh)
    k = len(p)
    cols = [x for x in range(k + 1) if all((x, y) in sh for y in range(k + 1))]
    rows = [y for y in range(k + 1) if all((x, y) in sh for x in range(k + 1))]
    if sh != biv_shading(k, set(cols), set(rows)):
        return []
    if k == 0 and sh:
        cols, rows = [0], []
    views = [("biv", BivincularPatt(Perm(p), cols, rows))]
    if not rows:
        views.append(("vin", VincularPatt(Perm(p), cols)))
    if not cols:
        views.append(("cov", CovincularPatt(Perm(p), rows)))
    return views


class _EnoughOutput(BaseException):
    pass


def run_cli(argv, max_prints=None):
    """Run the command line the way a user does - through the library's own argument parser and
    the handler it dispatches to - and return what was printed.  `count` never ends by itself:
    max_prints stops it after that many print calls."""
    import contextlib
    import io

    from permuta import cli

    args = cli.get_parser().parse_args(list(argv))
    buf = io.StringIO()
    calls = [0]

    def limited_print(*a, **k):
        calls[0] += 1
        if max_prints is not None and calls[0] > max_prints:
            raise _EnoughOutput()
        k.pop("flush", None)
        print(*a, **k)

    had = "print" in vars(cli)
    old = vars(cli).get("print")
    cli.print = limited_print
    try:
        with contextlib.redirect_stdout(buf):
            try:
                args.func(args)
            except _EnoughOutput:
                pass
    finally:
        if had:
            cli.print = old
        else:
            del cli.print
    return buf.getvalue()


def with_default_recursion_budget(fn):
    """Call fn() with the interpreter's default recursion budget (1000 frames) available from
    here on - the harness itself runs with a raised limit, which would hide a library routine
    that has become recursive in the size of its input.  Never stricter than a user calling from
    the top level.  Returns ("ok", value) or ("recursion", None)."""
    import sys

    depth = 0
    frame = sys._getframe()  # pylint: disable=protected-access
    while frame is not None:
        depth += 1
        frame = frame.f_back
    old = sys.getrecursionlimit()
    sys.setrecursionlimit(depth + 1000)
    try:
        return "ok", fn()
    except RecursionError:
        return "recursion", None
    finally:
        sys.setrecursionlimit(old)

#!/usr/bin/env python3
"""Run the whole mutation table against the quick tier and (re)write SENSITIVITY.md.

Each entry: (property, file, old text, new text, expectation, note) where expectation is
"caught" or "equivalent" (a mutant argued to be semantically equivalent w.r.t. the property:
the check must stay quiet on it - a CAUGHT there would be a false alarm).
Seeded changes under seeded/<id>/patch.diff are run as well.
usage: tools/sensitivity.py [-j N] [--only Cxx]
"""
import argparse
import concurrent.futures
import glob
import json
import os
import subprocess
import sys

ROOT = os.path.dirname(os.path.dirname(os.path.abspath(__file__)))
PERM = "permuta/patterns/perm.py"
MESH = "permuta/patterns/meshpatt.py"
BIV = "permuta/patterns/bivincularpatt.py"
PSET = "permuta/perm_sets/permset.py"
BASIS = "permuta/perm_sets/basis.py"
PIN = "permuta/permutils/pin_words.py"
STAT = "permuta/permutils/statistics.py"
CORE = "permuta/enumeration_strategies/core_strategies.py"
SUB = "permuta/bisc/bisc_subfunctions.py"

M = [
    # ---- C01
    ("C01", PERM, "if compare_colours and lower_bound <= element <= upper_bound:", "if compare_colours and lower_bound <= element < upper_bound:", "caught", "value window off by one"),
    ("C01", PERM, "if elements_remaining < elements_needed:", "if elements_remaining <= elements_needed:", "caught", "'not enough elements left' cut off by one"),
    ("C01", PERM, "                while not deq[-1][0] <= val <= deq[0][0]:\n                    deq.rotate(1)", "                while not deq[-1][0] <= val <= deq[0][0]:\n                    deq.rotate(-1)", "equivalent", "rotation direction: the loop runs until the window condition holds either way"),
    ("C01", PERM, "            self._cached_pattern_details = [\n                (\n                    floor,\n                    ceiling,\n                    val if floor == -1 else val - self[floor],\n                    len(self) - val if ceiling == -1 else self[ceiling] - val,\n                )\n                for val, (floor, ceiling) in zip(self, self.left_floor_and_ceiling())\n            ]\n", "            self._cached_pattern_details = details = []\n            for val, (floor, ceiling) in zip(self, self.left_floor_and_ceiling()):\n                details.append((floor, ceiling, val if floor == -1 else val - self[floor], len(self) - val if ceiling == -1 else self[ceiling] - val))\n", "caught", "pattern memo published before it is filled: only a search aborted part-way leaves it truncated"),
    # ---- C02
    ("C02", PSET, "for i in range(max(0, n - max_size), n):", "for i in range(max(0, n - max_size + 1), n):", "caught", "insertion window start"),
    ("C02", PSET, "for i in range(start, level_number - 1):", "for i in range(start, level_number):", "caught", "compaction reaches a level still needed"),
    ("C02", PSET, "if not check_length or new_perm not in smaller_elems:", "if True:", "caught", "basis element of the level's own length not removed"),
    ("C02", PSET, "start = max(0, len(self.cache) - 2)", "start = 0", "equivalent", "re-compacting compacted levels is idempotent"),
    ("C02", PSET, "acceptable.extend(k + 1 for k in spots if k >= val)", "acceptable.extend(k + 1 for k in spots if k > val)", "caught", "insertion spots"),
    ("C02", PSET, "            for perm, lis in last_level.items():\n                for value in valid_insertions(perm):\n                    new_perm = perm.insert(index=nplusone, new_element=value)\n                    if not check_length or new_perm not in smaller_elems:\n                        new_level[new_perm] = []\n                        assert lis is not None\n                        lis.append(value)\n            self.cache.append(new_level)\n", "            self.cache.append(new_level)\n            for perm, lis in last_level.items():\n                for value in valid_insertions(perm):\n                    new_perm = perm.insert(index=nplusone, new_element=value)\n                    if not check_length or new_perm not in smaller_elems:\n                        new_level[new_perm] = []\n                        assert lis is not None\n                        lis.append(value)\n", "caught", "level published before it is filled: only an aborted request (or an open iterator) sees it"),
    # ---- C03
    ("C03", MESH, "1 for candidate_element in candidate if candidate_element < element", "1 for candidate_element in candidate if candidate_element <= element", "equivalent", "element is never in candidate"),
    ("C03", MESH, "                if (x, y) in self.shading:\n                    break", "                if (y, x) in self.shading:\n                    break", "caught", "x/y swapped"),
    ("C03", BIV, "            assert 0 <= val <= n\n            yield from ((idx, val) for idx in range(n + 1))", "            assert 0 <= val <= n\n            yield from ((idx, val) for idx in range(n))", "caught", "adjacent-value row misses the last column"),
    # ---- C04
    ("C04", MESH, "return MeshPatt(perm, ((y, n - x) for x, y in self.shading))", "return MeshPatt(perm, ((n - y, x) for x, y in self.shading))", "caught", "wrong-but-bijective cell formula"),
    ("C04", PERM, "        syms = {self, self.inverse()}\n        curr: \"Perm\" = self\n        for _ in range(3):", "        syms = {self, self.inverse()}\n        curr: \"Perm\" = self\n        for _ in range(2):", "caught", "all_syms misses elements"),
    ("C04", "permuta/permutils/symmetry.py", "    for _ in range(3):", "    for _ in range(2):", "caught", "all_symmetry_sets misses elements"),
    ("C04", MESH, "return MeshPatt(self.pattern.inverse(), ((y, x) for (x, y) in self.shading))", "return MeshPatt(self.pattern.inverse(), ((x, y) for (x, y) in self.shading))", "caught", "inverse keeps shading"),
    # ---- C05
    ("C05", BASIS, "        return cls._pruner(sorted(patts))", "        return cls._pruner(list(patts))", "caught", "sort removed"),
    ("C05", BASIS, "                new_basis = [kept for kept in new_basis if kept.avoids(patt)]\n", "", "caught", "revert of fix F3"),
    ("C05", BASIS, 'return cls(*map(Perm.to_standard, re.findall(r"\\d+", patts)))', 'return cls(*map(Perm.from_string, re.findall(r"\\d+", patts)))', "caught", "1-based strings no longer standardised"),
    ("C05", PSET, "        basis = tuple(basis)\n        if MeshBasis", "        if MeshBasis", "caught", "revert of fix F11"),
    # ---- C06
    ("C06", MESH, "return not any(lower <= self.pattern[idx] < upper for idx in range(left, right))", "return not any(lower <= self.pattern[idx] < upper + 1 for idx in range(left, right))", "caught", "is_pointfree window"),
    ("C06", MESH, "                and self.is_pointfree(\n                    (vertical[x], horizontal[y]),\n                    (vertical[x + 1] - 1, horizontal[y + 1] - 1),\n                )", "                and True", "caught", "point-free test dropped"),
    ("C06", MESH, "if self.shading <= patt.sub_mesh_pattern(occurrence).shading", "if self.shading >= patt.sub_mesh_pattern(occurrence).shading", "caught", "subset direction"),
    # ---- C07
    ("C07", PSET, "        with Av._CACHE_LOCK:\n            self._ensure_level(level_number)", "        if True:\n            self._ensure_level(level_number)", "caught", "lock removed"),
    ("C07", PSET, "        with Av._CACHE_LOCK:\n            self._ensure_level(level_number)\n        return self.cache[level_number]", "        if len(self.cache) > level_number:\n            return self.cache[level_number]\n        with Av._CACHE_LOCK:\n            self._ensure_level(level_number)\n        return self.cache[level_number]", "equivalent", "double-checked read: a level only becomes visible once complete; compaction keeps the keys"),
    # ---- C08
    ("C08", BIV, "        return super().__hash__()", "        return hash(super())", "caught", "revert of fix F1"),
    ("C08", MESH, "    def __lt__(self, other: object) -> bool:\n        if not isinstance(other, MeshPatt):", "    def __lt__(self, other: object) -> bool:\n        if not isinstance(other, self.__class__):", "caught", "revert of fix F2 (one operator)"),
    ("C08", MESH, "        return other.__lt__(self)", "        return other.__le__(self)", "caught", "> is >="),
    ("C08", MESH, "        return hash((self.pattern, self.shading))", "        return hash((self.pattern, tuple(self.shading)))", "caught", "hash depends on set iteration order"),
    ("C08", PERM, "        return (len(self), tuple(self)) <= (len(other), tuple(other))", "        return tuple(self) <= tuple(other)", "caught", "<= ignores length"),
    # ---- C09
    ("C09", PERM, "            ordered_pos = bisect.bisect_left(vals, val)", "            ordered_pos = bisect.bisect_right(vals, val)", "equivalent", "values are distinct"),
    ("C09", PERM, "            while number > factorial[-1]:", "            while number >= factorial[-1]:", "caught", "unrank boundary"),
    ("C09", PERM, "idx for (idx, _) in sorted(enumerate(iterable), key=operator.itemgetter(1))", "idx for (_, idx) in sorted((val, -idx) for idx, val in enumerate(iterable))", "caught", "ties broken right to left"),
    ("C09", MESH, "            res |= 1 << (x * (n + 1) + y)", "            res |= 1 << (y * (n + 1) + x)", "caught", "rank/unrank disagree"),
    # ---- C10
    ("C10", PERM, "            for length in range(2, n - idx + 1):", "            for length in range(2, n - idx):", "caught", "intervals ending at the last position missed"),
    ("C10", PERM, "        return Perm((val + times) % bound for val in self)", "        return Perm((val - times) % bound for val in self)", "caught", "shift sign"),
    ("C10", PERM, "            shift += 1 if component is None else len(component)", "            shift += 1 if not component else len(component)", "caught", "empty component treated as a point"),
    ("C10", PERM, "            if n - idx - 1 == min_val:", "            if n - idx == min_val:", "caught", "skew decomposition"),
    ("C10", PERM, "        return list(set(self.insert(i, j) for i in range(n + 1) for j in range(n + 1)))", "        return list(set(self.insert(i, j) for i in range(n) for j in range(n + 1)))", "caught", "coveredby misses the last position"),
    # ---- C11
    ("C11", PERM, "        return sum(val - idx for idx, val in enumerate(self) if val > idx)", "        return sum(val - idx for idx, val in enumerate(self) if val >= idx + 2)", "caught", "depth"),
    ("C11", PERM, "            while bit_index < bit_len:", "            while bit_index < bit_len - 1:", "equivalent", "the last Fenwick cell is never queried"),
    ("C11", STAT, '        ("Number of peaks", Perm.count_peaks),\n        ("Number of valleys", Perm.count_valleys),', '        ("Number of peaks", Perm.count_valleys),\n        ("Number of valleys", Perm.count_peaks),', "caught", "two table entries swapped"),
    ("C11", STAT, "        lis = [0] * (max(cnt.keys(), default=0) + 1)", "        lis = [0] * (max(cnt.keys(), default=0) + 2)", "caught", "distribution has a trailing zero"),
    ("C11", STAT, "        return all(self.func(k) == self.func(v) for k, v in bijection.items())", "        return all(self.func(k) == self.func(v) for k, v in bijection.items() if len(k) > 1)", "caught", "short keys ignored (needs a length-changing map)"),
    ("C11", "permuta/misc/math.py", "    while i**2 <= n:", "    while i**2 < n:", "caught", "squares of primes"),
    ("C11", STAT, "        all_stats = tuple(cls._get_all())\n", "        all_stats = cls._get_all()\n", "caught", "revert of fix F15"),
    # ---- C12
    ("C12", PERM, "            if stack and num > stack[0]:", "            if stack and num > stack[-1]:", "caught", "pop-stack compares with the bottom"),
    ("C12", PERM, "        for maxind in Perm(perm_slice).strong_fixed_points():\n            pass", "        for maxind in Perm(perm_slice).strong_fixed_points():\n            break", "caught", "first instead of last strong fixed point"),
    ("C12", "permuta/permutils/bijections.py", "                img[idx] = next(k for k in range(n - 1, -1, -1) if k not in used)", "                img[idx] = next(k for k in range(n - 1, min_val, -1) if k not in used)", "equivalent", "non-minima always exceed the running minimum"),
    ("C12", "permuta/bisc/perm_properties.py", "_SIMSUN_PATT = MeshPatt(Perm((2, 1, 0)), [(1, 0), (1, 1), (2, 2)])", "_SIMSUN_PATT = MeshPatt(Perm((2, 1, 0)), [(1, 0), (1, 1), (2, 1)])", "caught", "simsun shading"),
    ("C12", "permuta/bisc/perm_properties.py", "        found = next(((ind, cur) for ind, cur in enumerate(cur_row) if cur > k), None)", "        found = next(((ind, cur) for ind, cur in enumerate(cur_row) if cur >= k + 2), None)", "caught", "RSK bumping"),
    # ---- C13
    ("C13", "permuta/permutils/polynomial.py", "        if perm_slice[-1] == n - 2 and perm_slice[-2] == n - 1:", "        if perm_slice[-1] == n - 2:", "caught", "L2 membership"),
    ("C13", "permuta/permutils/insertion_encodable.py", "            curr = curr | InsertionEncodablePerms._insertion_encodable_properties(\n                perm.rotate()\n            )", "            curr = curr | InsertionEncodablePerms._insertion_encodable_properties(\n                perm.inverse()\n            )", "equivalent", "rotate and inverse map the set of four classes onto the same set"),
    ("C13", "permuta/permutils/insertion_encodable.py", "        basis = tuple(basis)\n", "", "caught", "revert of fix F7"),
    ("C13", "permuta/permutils/finite.py", "    it1, it2 = tee(basis, 2)", "    it1, it2 = basis, basis", "caught", "iterator consumed by the first test"),
    ("C13", "permuta/permutils/polynomial.py", "        if PolyPerms._of_type_8(perm.reverse()):", "        if PolyPerms._of_type_8(perm.complement()):", "equivalent", "reverse and complement of L2 coincide as classes"),
    # ---- C14
    ("C14", PIN, 'letter_dict = {"1": "RU", "2": "LU", "3": "LD", "4": "RD"}\n            opposite', 'letter_dict = {"1": "RU", "2": "LU", "3": "RD", "4": "LD"}\n            opposite', "caught", "two quadrant letters swapped"),
    ("C14", PIN, "and word[idx + 1 : idx + k] == u_word[1:]", "and word[idx + 1 : idx + k - 1] == u_word[1:-1]", "caught", "last letter not compared"),
    ("C14", "permuta/permutils/pinword_util.py", "            next_x = self.half * (last_x + PinWordUtil.min_x(pre_perm[:-1]))\n            next_y = PinWordUtil.min_y(pre_perm) - self.one", "            next_x = self.half * (last_x + PinWordUtil.max_x(pre_perm[:-1]))\n            next_y = PinWordUtil.min_y(pre_perm) - self.one", "caught", "D places the pin on the wrong side"),
    ("C14", PIN, "                    for x in rec(word, u_word, occ + len(u_word[j]), j + 1, res):", "                    for x in rec(word, u_word, occ + len(u_word[j]) - 1, j + 1, res):", "caught", "factors may overlap"),
    # ---- C15
    ("C15", PIN, "            if len(word) == 1:\n                return (letters, letters[::-1])", "            if len(word) == 1:\n                return (letters,)", "caught", "one alternative of a lone numeral dropped"),
    ("C15", PIN, "            out_dfa = out_dfa.union(out_dfa2)\n        return out_dfa\n\n    @classmethod\n    def make_dfa_for_basis_from_pinwords", "            out_dfa = out_dfa.intersection(out_dfa2)\n        return out_dfa\n\n    @classmethod\n    def make_dfa_for_basis_from_pinwords", "caught", "union -> intersection"),
    ("C15", PIN, "        dfa = cls.make_dfa_for_m().difference(dfa)\n        return dfa.isfinite() is True", "        dfa = cls.make_dfa_for_m().difference(dfa)\n        return dfa.isfinite() is True or len(basis) > 1", "caught", "multi-element bases always 'finite'"),
    ("C15", PIN, '                1: {"U": 3, "D": 3, "L": 2, "R": 2},', '                1: {"U": 1, "D": 3, "L": 2, "R": 2},', "caught", "M automaton accepts UU"),
    ("C15", PIN, "        sorted_basis = sorted(basis)\n        for perm in sorted_basis:", "        sorted_basis = sorted(basis)\n        for perm in sorted_basis[:1]:", "caught", "database route uses the first element only"),
    # ---- C16
    ("C16", PIN, "        alt_basis = (Perm((0, 1, 2)), Perm((1, 3, 0, 2)), Perm((2, 3, 0, 1)))", "        alt_basis = (Perm((0, 1, 2)), Perm((1, 3, 0, 2)))", "caught", "table entry removed"),
    ("C16", PIN, "            Perm((3, 2, 0, 1)),\n        )\n        for sym in all_symmetry_sets(wedge2_b):", "            Perm((3, 2, 0, 1)),\n        )\n        for sym in list(all_symmetry_sets(wedge2_b))[:5]:", "caught", "symmetries dropped"),
    ("C16", PIN, "        wedge1 = cls.has_finite_wedges_type_1(basis)\n        if not wedge1:\n            return False", "        wedge1 = cls.has_finite_wedges_type_1(basis)", "caught", "wedge type 1 result ignored"),
    ("C16", PSET, "            self.is_finite()\n            or self.is_polynomial()\n            or PinWords.has_finite_simples(self.basis)", "            self.is_finite()\n            or self.is_insertion_encodable()\n            or PinWords.has_finite_simples(self.basis)", "caught", "class method uses the wrong shortcut"),
    # ---- C17
    ("C17", SUB, "                    (sh[0] - (sh[0] > i), sh[1] - (sh[1] > perm[i])) for sh in shading", "                    (sh[0] - (sh[0] >= i), sh[1] - (sh[1] > perm[i])) for sh in shading", "caught", "shading shift"),
    ("C17", SUB, "            y = sum(1 for candidate_elt in candidate if candidate_elt < element)\n            hit_boxes.append((x, y))\n        shit_boxes = set(hit_boxes)\n        if any(shit_boxes.intersection(R) == set([]) for R in Rs):", "            y = sum(1 for candidate_elt in candidate if candidate_elt <= element)\n            hit_boxes.append((y, x))\n        shit_boxes = set(hit_boxes)\n        if any(shit_boxes.intersection(R) == set([]) for R in Rs):", "caught", "private containment x/y swapped"),
    ("C17", SUB, "            for j, r in enumerate(R):\n                if not any(map(lambda s: s.issubset(r), R[j + 1 :])):\n                    newR.append(r)", "            for j, r in enumerate(R):\n                newR.append(r)", "caught", "non-minimal shadings kept"),
    ("C17", SUB, "                    if mesh_contains_cl_patt_many_shadings_with_positions(\n                        perm, D, pattern_positions[cl_patt], badpatts[j][cl_patt]\n                    ):", "                    if False:", "equivalent", "only whole-pattern redundancy results, which the property (cell-wise irredundancy) does not exclude"),
    # ---- C18
    ("C18", MESH, "                (x - 1, y - 1) in self.shading,", "                False,", "caught", "side condition dropped"),
    ("C18", MESH, "                all(((x, y - 1) in self.shading, (x - 1, y) in self.shading)),", "                False,", "caught", "side condition dropped"),
    ("C18", MESH, "            if s_x >= x:\n                new_xs.append(s_x + 1)", "            if s_x > x:\n                new_xs.append(s_x + 1)", "caught", "add_point base shading"),
    ("C18", MESH, "            new_shading.update(((x, y + 1), (x + 1, y + 1)))", "            new_shading.update(((x, y + 1), (x + 1, y)))", "caught", "directional shading"),
    ("C18", MESH, "            pos1, pos2 = (pos1[1], n - pos1[0]), (pos2[1], n - pos2[0])", "            pos1, pos2 = (pos1[1], n - pos1[0]), (pos2[1], n - pos2[1])", "caught", "cell rotation in can_simul_shade"),
    ("C18", MESH, '            return " "', '            return "  "', "caught", "rendering"),
    # ---- C19
    ("C19", CORE, "    patterns_needed = frozenset([R_U, C_U, C_D])", "    patterns_needed = frozenset([R_U, C_U])", "caught", "needed pattern dropped"),
    ("C19", CORE, "    return perm[0] == 0 and not fstrip(perm).sum_decomposable()", "    return perm[0] == 0 and not perm.sum_decomposable()", "caught", "fstrip skipped"),
    ("C19", "permuta/enumeration_strategies/abstract_strategy.py", "        return next((True for b in syms if self._applies_to_symmetry(b)), False)", "        return next((True for b in list(syms)[:6] if self._applies_to_symmetry(b)), False)", "caught", "symmetries dropped"),
    ("C19", CORE, "            and (last_comp not in Rd2134CoreStrategy._NON_INC or len(last_comp) == 1)", "            and (last_comp not in Rd2134CoreStrategy._NON_INC)", "caught", "length-1 exception dropped"),
    # ---- C20
    ("C20", "permuta/bisc/bisc.py", '        with open(file_name, "w") as f:', '        with open(file_name, "a+") as f:', "caught", "revert of fix F9"),
    ("C20", "permuta/bisc/bisc.py", '    except (ValueError, TypeError, OSError):\n        print(f"File is invalid: {path}")\n        return {}', "    except (ValueError, TypeError, OSError):\n        return {}", "caught", "invalid file not reported"),
    ("C20", PIN, "        filename = f\"{''.join(str(i) for i in perm)}.txt\"\n        path = path / filename\n        if path.is_file():\n            return", "        filename = f\"{''.join(str(i) for i in sorted(perm))}.txt\"\n        path = path / filename\n        if path.is_file():\n            return", "caught", "database file name collides"),
]


NO_RUN = False
CACHE = {}
CACHE_PATH = None
CACHE_LOCK = __import__("threading").Lock()


def run_one(job):
    """With --cache FILE every finished job is appended to FILE (JSON lines) and jobs already in
    it are not run again: an interrupted run resumes, and rows of checks that did not change can
    be carried over by keeping their lines."""
    kind, payload = job
    ident = json.dumps([kind, payload[0]] + ([os.path.relpath(payload[1], ROOT), payload[4]] if kind == "seed" else list(payload[1:4])))
    if CACHE_PATH and os.path.exists(CACHE_PATH):
        # another process (a long thorough-tier row started up front) may have finished it meanwhile
        for line in open(CACHE_PATH):
            rec = json.loads(line)
            CACHE[rec["id"]] = rec["res"]
    if ident in CACHE:
        return tuple(CACHE[ident])
    if NO_RUN:
        return _describe(job) + ("NOT-RUN", [])
    res = _run_one(job)
    if CACHE_PATH:
        with CACHE_LOCK, open(CACHE_PATH, "a") as fh:
            fh.write(json.dumps({"id": ident, "res": list(res)}) + "\n")
    return res


def _describe(job):
    kind, payload = job
    if kind == "mut":
        prop, file, _old, _new, expect, note = payload
        return prop, f"{file}: {note}", expect
    prop, path, expect, note, tier = payload
    return prop, f"seeded/{os.path.basename(os.path.dirname(path))}: {note}" + (f" [{tier} tier]" if tier != "quick" else ""), expect


def _run_one(job):
    kind, payload = job
    if kind == "mut":
        prop, file, old, new, expect, note = payload
        cmd = [os.path.join(ROOT, "tools", "mut.py"), prop, file, old, new]
        label = f"{file}: {note}"
    else:
        prop, path, expect, note, tier = payload
        cmd = [os.path.join(ROOT, "tools", "mut.py"), prop, "--patch", path]
        label = f"seeded/{os.path.basename(os.path.dirname(path))}: {note}"
        if tier != "quick":
            # a change only the thorough tier can reach (recorded in the seed's meta.json)
            cmd += ["--tier", tier]
            label += f" [{tier} tier]"
    res = subprocess.run(cmd, capture_output=True, text=True)
    first = res.stdout.splitlines()[0] if res.stdout else "NO OUTPUT " + res.stderr[-200:]
    kinds = sorted({ln.split("kind=")[1].split()[0] for ln in res.stdout.splitlines() if "kind=" in ln})
    return prop, label, expect, first, kinds


def main():
    ap = argparse.ArgumentParser()
    ap.add_argument("-j", type=int, default=3)
    ap.add_argument("--only")
    ap.add_argument("--cache")
    ap.add_argument("--no-run", action="store_true", help="build the table from the cache only; rows not in it are listed as not run")
    args = ap.parse_args()
    global NO_RUN
    NO_RUN = args.no_run
    if args.cache:
        global CACHE_PATH
        CACHE_PATH = args.cache
        if os.path.exists(args.cache):
            for line in open(args.cache):
                rec = json.loads(line)
                CACHE[rec["id"]] = rec["res"]
    jobs = [("mut", m) for m in M if not args.only or m[0] == args.only]
    for meta_path in sorted(glob.glob(os.path.join(ROOT, "seeded", "*", "meta.json"))):
        meta = json.load(open(meta_path))
        for prop in meta.get("run_checks", [meta["property"]]):
            if args.only and prop != args.only:
                continue
            jobs.append(("seed", (prop, os.path.join(os.path.dirname(meta_path), "patch.diff"), meta.get("expect", "caught"), meta.get("needs", ""), meta.get("tier", "quick"))))
    with concurrent.futures.ThreadPoolExecutor(args.j) as ex:
        results = list(ex.map(run_one, jobs))
    lines = [
        "# Sensitivity of the checks (generated by tools/sensitivity.py - quick tier, seed 1)",
        "",
        "Each row is one change applied to a scratch copy of the repository (never to /repo). `caught` = the quick",
        "tier exits 1 with VIOLATION lines of the listed kinds; `equivalent` = the change is argued to preserve the",
        "property (reason in the note) and the check must stay quiet on it.",
        "",
        "| property | change | expected | result | violation kinds reported |",
        "|---|---|---|---|---|",
    ]
    bad = notrun = 0
    for prop, label, expect, first, kinds in results:
        verdict = first.split()[0] if first else "?"
        ok = (expect == "caught" and verdict == "CAUGHT") or (expect == "equivalent" and verdict == "MISSED") or verdict == "NOT-RUN"
        if not ok:
            bad += 1
        if verdict == "NOT-RUN":
            notrun += 1
        shown = "quiet" if verdict == "MISSED" else ("not run in this pass" if verdict == "NOT-RUN" else verdict.lower())
        lines.append(f"| {prop} | {label.replace('|', '/')} | {expect} | {shown}{'' if ok else ' **UNEXPECTED**'} | {', '.join(kinds[:4])} |")
    lines.append("")
    lines.append(f"{len(results)} changes, {bad} unexpected results." + (f" {notrun} rows were not run in this pass (time budget)." if notrun else ""))
    lines += [
        "",
        "## Seeded changes (written by independent sub-agents that saw only the property text)",
        "",
        "Each was confirmed by me in its scratch worktree (existing test suite passes with the change; the agent's",
        "demonstration fails with it and passes without it) before being kept under `seeded/<id>/`. `first result` is",
        "what the checks did when the change was first run against them; `strengthening` says what was added when",
        "they missed it (the rows above show the current result).",
        "",
        "| seeded change | property | what it needs to manifest | first result | strengthening |",
        "|---|---|---|---|---|",
    ]
    for meta_path in sorted(glob.glob(os.path.join(ROOT, "seeded", "*", "meta.json"))):
        meta = json.load(open(meta_path))
        lines.append(
            f"| {meta['id']} | {meta['property']} | {meta.get('needs', '').replace('|', '/')} | {meta.get('first_result', 'caught')} | {meta.get('strengthening', 'none needed').replace('|', '/')} |"
        )
    if not args.only:
        with open(os.path.join(ROOT, "SENSITIVITY.md"), "w") as fh:
            fh.write("\n".join(lines) + "\n")
    print("\n".join(lines[-(len(results) + 3) :]))
    return 1 if bad else 0


if __name__ == "__main__":
    sys.exit(main())

#!/bin/sh
# run every registered quick (or thorough) check once; usage: tools/runall.sh [quick|thorough] [seed] ["Cxx Cyy ..."]
cd "$(dirname "$0")/.."
TIER="${1:-quick}"; export VERIF_SEED="${2:-1}"
rc=0
PROPS="${3:-C01 C02 C03 C04 C05 C06 C07 C08 C09 C10 C11 C12 C13 C14 C15 C16 C17 C18 C19 C20}"
for p in $PROPS; do
  out=$(./check $p --tier $TIER 2>&1); code=$?
  echo "$out" | grep -v "^KNOWN-FINDING" | tail -3
  [ $code -ne 0 ] && { echo "  -> $p exit $code"; rc=1; }
done
exit $rc

#!/usr/bin/env python3
"""Regenerate MANIFEST.json from the table below (keeps the file valid at all times)."""
import json
import os

ROOT = os.path.dirname(os.path.dirname(os.path.abspath(__file__)))

# id -> (technique, level text, level note, design ref)
EXH = "exhaustive small-world enumeration + Hypothesis-generated cases"
CHECKS = {
    "C01": (
        EXH + " against a definitional reference model (combinations + order-isomorphism); histories re-using memoised pattern objects",
        "Every (pattern, permutation) pair below a length bound is enumerated and every entry point compared, as a list, with an independent oracle; above the bound Hypothesis plants occurrences, colours and re-uses memoised pattern objects across targets, including lazily consumed searches that overlap in time, searches aborted part-way by an injected asynchronous exception and patterns given in one-shot containers; thorough adds atheris campaigns with the oracle inside the target. Exploration is the right level: the property is universally quantified over an infinite domain; complete small worlds plus generated larger ones reach the off-by-one and memo faults the pruned backtracking search can have. Light sweep: listing / count / containment for all patterns of 3-6 points in every target of the next length (7 quick, 9 thorough).",
        "Trusted: pv/oracle.py. Bounded: exhaustive |p|<=4,|t|<=6 quick (|p|<=5,|t|<=8 thorough); generated up to |p|<=6,|t|<=12 and |p|<=4,|t|<=24. 70000 independent pairs with a pattern of 5-7 and a target of 8-12 points (3 million thorough).",
        "DESIGN.md 4/C01",
    ),
    "C02": (
        "model-based stateful testing: generated query histories (op-list strategy and Hypothesis RuleBasedStateMachine) interpreted against a brute-force model of Av(basis)",
        "Histories of count / of_length / iterators / up_to_length / first / membership / is_subclass / clear_cache / re-creation / requests aborted part-way by an injected asynchronous exception are run side by side with ref.av (filter of S_n) and compared after every step; iterators are drained at the end. Exploration: the state space of the level cache with in-place compaction is only reachable through histories, which the generator produces and shrinks as one value. Command line `count` through the library's parser; subclass tests against related bases; mesh bases sharing an underlying permutation and four-point line-shaded elements.",
        "Trusted: reference (mesh) containment. Bounded: n<=7 classical (8 thorough), n<=5 mesh; <=12 ops per history; long_levels with an incremental oracle: every level up to 10 (12 thorough) for Catalan-sized classes, 9 (11) otherwise. Open findings F4 (first on mesh classes), F5 (is_subclass with mesh bases) are classified by exact defect models.",
        "DESIGN.md 4/C02",
    ),
    "C03": (
        EXH + " against a cell-counting reference model; bivincular family against adjacency semantics",
        "All 2^((k+1)^2) shadings of all patterns of length <=2 against all permutations up to the bound, all adjacency-requirement sets up to length 3, every entry point, every container form of shadings and requirements (one-shot iterators included); generated larger patterns, mixed lists and overlapping lazy enumerations with one pattern object. Exploration over complete small worlds is the right level for a property quantified over all shadings. Structured requirement sets (both ends, one end, inner columns, full) on patterns of 2-5 points with planted occurrences that survive the anchors.",
        "Trusted: oracle mesh_occ and the adjacency formulation (cross-checked against each other in the self-test). Bounded: |t|<=5 quick / 6 thorough exhaustive; generated |p|<=4,|t|<=8. Light sweep: mesh patterns of length 2-3 with one or two shaded cells in every target up to length 8 (9 thorough).",
        "DESIGN.md 4/C03",
    ),
    "C04": (
        EXH + "; oracle = the eight affine maps of the square on points and cell centres; metamorphic two-sided equivariance",
        "Each library symmetry is compared with the geometric map on every permutation up to the bound and on mesh patterns; dihedral relations, all_syms = orbit (closure under reverse/inverse), set helpers, lex_min constant on orbits, CLI output; equivariance of containment under all eight symmetries, for fresh pattern objects and for objects whose search table is already memoised. Every permutation up to length 8 (9 thorough); permutations of 1200-2500 points under the default recursion budget. Light equivariance sweep of contains() under all eight symmetries for every pair of lengths (4,6), (5,6), (5,7) (thorough to (5,8), (6,7)).",
        "Trusted: direction conventions fixed by the documented examples (checked in the self-test). Bounded: all perms <=7 quick / 8 thorough; mesh patterns <=1 exhaustive quick, <=2 thorough, generated <=4.",
        "DESIGN.md 4/C04",
    ),
    "C05": (
        "Hypothesis-generated multisets of patterns of all kinds built in every order + exhaustive small classical multisets; oracle = containment-minimal elements and brute-force class equality",
        "Each multiset is built in all orders (<=24) and with repetitions through every constructor (lists, tuples, one-shot iterators, strings 0/1-based); results must be equal, hash-equal, antichains, equal to the reference minimal elements, fixed points, same class, same Av object. Light sweep of every pair of classical patterns of lengths up to (6, 7) (3.7 million pairs in the quick tier). Near-contained mesh pairs: a longer pattern whose shading is the union of the regions of a shorter one's cells with cells taken out. 96000 independent pairs (pattern 5-7, longer one 8-12).",
        "Trusted: oracle mesh-in-mesh containment. Bounded: <=4 patterns, lengths <=4 (mesh <=3), class equality to n=5.",
        "DESIGN.md 4/C05",
    ),
    "C06": (
        EXH + "; semantic oracle: composition of occurrences in every permutation up to |B|+1 (exact bound) + independent region arithmetic",
        "Every reported occurrence of A in B is composed with every reference occurrence of B in every permutation of length <=|B|+1; induced sub-patterns are checked to be implied and strongest (every unshaded cell witnessed). Bivincular / vincular / covincular views of line-shaded patterns as smaller and larger pattern; counts compared in every case. The transitive reading through the library's own boolean entry points.",
        "Trusted: oracle mesh_occ. The bound |B|+1 is exact (DESIGN.md). Bounded: |B|<=3 quick / 4 thorough generated; |B|<=1 all shadings, |B|=2 all shadings for sub-patterns.",
        "DESIGN.md 4/C06",
    ),
    "C08": (
        "Hypothesis-generated pairs/triples across the pattern hierarchy + exhaustive small worlds; oracle = algebraic laws; hash lifetimes under generated allocation histories",
        "Equivalence laws, equal-implies-equal-hash, strict total order laws and operator consistency on every pair of mesh-type representations of patterns of length <=1, all pairs of permutations of length <=4, generated triples incl. twins; hash stability across allocation bursts and set/dict lookups through equal twins. Permutations of 5-12 points sharing all but the last few entries (comparisons decided late).",
        "Trusted: the laws themselves; (length, lex) order on tuples. Cross-family symmetry of == is deliberately not asserted (see evidence assumptions).",
        "DESIGN.md 4/C08",
    ),
    "C09": (
        EXH + "; oracle = enumeration order, independent rank formula, stable-rank standardisation, round trips",
        "All ranks/permutations up to length 7 (8 thorough), first(k) for every k, all notations; large ranks up to sum k!, k<=12; standardisation of ints/floats/strings/Fractions/tuples/bools with ties and memo histories; validated constructor accepts exactly bijections; MeshPatt rank/unrank/of_length bijective. Every multiset of size n over n letters (n <= 8 / 10) for standardisation; cycle notation, ASCII and TikZ pictures read back; aliases; inputs of thousands of values under the default recursion budget. Exhaustive mesh rank / unrank sweep at length 3 and for few-cell shadings at lengths 4-6 against the documented bit layout.",
        "Trusted: oracle std/rank. Domain limits stated in evidence (hashable comparable inputs; from_integer leading zero; str round trip <=10).",
        "DESIGN.md 4/C09",
    ),
    "C10": (
        EXH + "; oracle = point configurations + standardisation, definitional interval/run scanners, children/coveredby duality",
        "Every permutation up to length 6 (8 thorough) with all argument values for insert/remove/shifts; all ordered pairs of length <=4 for composition and sums; generated triples and inflate component lists with None/empty components. Light sweep of the simplicity / decomposability predicates and of the interval, block, block-pattern and monotone-run methods on every permutation of length 8 (9 thorough); negative and keyword indices; permutations of ~2000 points.",
        "Trusted: oracle definitions. is_strongly_simple is asserted as 'simple and every one-point deletion simple' (the code's reading and the usual definition; the docstring says 'any of').",
        "DESIGN.md 4/C10",
    ),
    "C11": (
        EXH + "; oracle = table of independent definitions for 27 of 32 named statistics and all listings; iff-oracle for the distribution / preservation tools",
        "All permutations up to length 7 (8 thorough) x every statistic, listing and count; tools checked on generated classes and bijections-as-data with the defining identity evaluated on oracle values. Light sweep of listing forms and named statistics at length 8 (9); distributions and equidistribution over mesh classes, pairs of classes whose differences cancel across lengths; documented-formula oracles for all 32 statistics.",
        "Five statistics (bounces, fore/after maxima/minima) have only a weak oracle. Open findings F6 (LIS/LDS bound to longest run) and F16 (layer decomposition) are classified by exact defect models.",
        "DESIGN.md 4/C11",
    ),
    "C12": (
        "exhaustive enumeration of all permutations up to the bound + generated longer ones + generated disturbed histories (fault injection by sys.settrace, owned thread schedules); oracle = device simulation with real containers, characterisations by reference containment, family definitions, Greene's theorem",
        "One pass of each device, sortable predicates, pattern characterisations, sort counts, the whole Simion-Schmidt map per length (bijection, fixed minima, inverse, rejection), named families from their definitions; disturbed histories: every operator again after an earlier call was aborted at a generated line (injected asynchronous exception) and while 2-4 calls overlap under an owned schedule. Light sweep of the devices at length 9 (10 thorough); direct sums of small blocks up to length 20.",
        "Trusted: oracle devices; characterisations are cross-checked against the devices in the self-test before use. 'smooth' = docstring definition.",
        "DESIGN.md 4/C12",
    ),
    "C18": (
        EXH + "; oracle = equality of container sets up to |p|+2 (+3 thorough) by reference containment; semantic point insertion; own plot parser",
        "Whenever can_shade / can_simul_shade / shadable_boxes license cells, the permutations containing the pattern before and after shading are compared; add_point/add_increase/add_decrease against 'some occurrence has a point (pair) in the cell'; ascii_plot parsed back. Every rectangle of every pattern up to length 4 for the region tests; TikZ read back; bivincular twins must give the same verdicts.",
        "Bounded witness length (|p|+2 quick); all patterns of length <=2 exhaustive, generated 3-4.",
        "DESIGN.md 4/C18",
    ),
    "C07": (
        "schedule-owning thread harness (sys.settrace preemption at every line of permset.py, cooperative replacement of the class lock) driven by Hypothesis-generated and PCT-style schedules; sequential brute-force model as oracle; real-thread stress run",
        "Each case is (basis, 2-4 thread programs, schedule); every lock permset.py holds or creates (class attributes, class-level dicts, multiprocessing/threading Lock/RLock made lazily) is made cooperative, whatever the locking scheme; exactly one thread runs at a time so the run is a pure function of code and case and shrinks/replays as one value; every query result is compared with the sequential answer, exceptions and deadlocks are violations. Exploration: schedules are sampled, not enumerated. Lazily consumed enumerations with a scheduling point per item, threads racing to construct the class, parked deep builds against near-member / tail-occurrence membership queries, membership queries for the basis elements themselves. Finite classes: a short query parked in its first lines while another thread builds past the last non-empty level. Publication points: the building thread parked right after the k-th level became visible while the others query that level.",
        "Preemption granularity = one source line of permset.py; library code called from there runs atomically. A foreign blocking primitive introduced by a change shows up as a harness stall (exit 2), not as a violation.",
        "DESIGN.md 3.5, 4/C07",
    ),
    "C13": (
        "Hypothesis-generated bases in every container form / order / symmetry + exhaustive small bases + verdict-call histories; oracle = structure theorems with membership decided by reference avoidance of the published bases of the ten classes; enumeration consistency",
        "Verdicts of is_finite / is_polynomial / is_insertion_encodable(_rightmost/_maximum), the Av wrappers and the CLI are compared with the theorems on list, tuple, set, frozenset, Basis, generator, one-shot iterator, dict-keys and reversed containers under all eight symmetries; finite classes must be empty beyond the Erdos-Szekeres bound, infinite ones never, non-polynomial ones at least Fibonacci-sized; 'earlier calls' include a call aborted part-way by an injected asynchronous exception and calls still running in other threads (owned schedule) on fresh long basis elements. Membership of every permutation up to length 7 (8) in each of the ten / 4 + 4 classes read off the public verdicts; verdicts on all pairs to length 5 and triples to 4; command line through the library's parser.",
        "Published bases are cross-checked against split-point definitions on S_<=6 in the self-test. Enumeration for lengths 7-9 trusts Av (C02), cross-checked up to 6.",
        "DESIGN.md 4/C13",
    ),
    "C14": (
        "exhaustive enumeration of all pin words / (word, permutation) pairs below a length bound + Hypothesis-generated longer ones; oracle = order-theoretic decoder, true containment, own Theorem 3.13 matcher",
        "Decoding, quadrants, factors, the three tables, the SP<->M translations for every word up to length 5 (6 thorough); containment reflection for every (w, sigma) with |sigma| <= |w| <= 4 and generated sub-permutations / near misses up to length 8; strict pin words read off long words with periodic direction tails (overlapping occurrences) against the quadrant-based definition. Strict pin words on words with periodic direction tails (overlapping occurrences); words of 300-1100 letters under the default recursion budget; tables to length 6 (7).",
        "Own matcher = truth is asserted first (harness error otherwise). Open finding F8 (touching direction-led factor) is classified by the matcher without the gap condition.",
        "DESIGN.md 4/C14",
    ),
    "C15": (
        "exhaustive enumeration of (single-permutation basis, direction word) pairs + generated bases; oracle = semantic language (reference containment on the decoded pin sequence), own product/cycle search on the automaton's transition table",
        "All four construction routes must accept exactly the words of M whose encoded permutation contains a basis element (all words up to length 9/10); has_finite_pinperms against an own cycle search with semantic confirmation in both directions; database vs scratch by own product BFS. Automaton of a single pin word against its regular expression, exhaustive transition cover for strict pin words to 8 letters (11); bases with permutations without pin words; a 7-point pin permutation of the exceptional shape; listing orders with interleaved lengths; bases closed under symmetries of the square (5-6 point pin permutations and their images). Simple 7-point pin permutations with 24 pin words in the long-element corpus.",
        "Words of length < 2 encode nothing. Semantic 'finite' confirmation needs l*+1 <= 11.",
        "DESIGN.md 4/C15",
    ),
    "C16": (
        "Hypothesis-generated structured bases (boundary classes derived by brute force from explicit chains of simples) + exhaustive small bases; oracle = Schmerl-Trotter enumeration of simples and explicit infinite chains; metamorphic invariance across entry points, orders and symmetries",
        "'infinite' must be witnessed by simples in one of every two consecutive lengths up to N; 'finite' must hit each of the 24 oriented explicit chains and bound the avoiding pin sequences; all entry points (utility, class method, strategy, CLI) agree and are symmetry invariant. Exact check of the three component verdicts (alternations, both wedge types) against explicit chains; bases with a 7-point element or an element without pin words; listing orders with interleaved lengths.",
        "Both directions are consequences of theorems (no false alarms) but bounded (N; the chains constructed). Enumeration trusts Av (C02) beyond length 6.",
        "DESIGN.md 4/C16",
    ),
    "C17": (
        "Hypothesis-generated finite input sets in three representations; oracle = the three guarantees (sound up to n, complete up to m, cell-wise irredundant) evaluated with reference mesh containment; differential check of the algorithm's private containment tests; auto_bisc end-to-end on generated properties",
        "bisc output for arbitrary finite sets A (not only classes) is checked against A itself with the reference model; clean-up bases must hit every tested bad permutation and round-trip; the driver's sanity checks patterns_suffice_for_good/_for_bad are tested two-sided with intruders placed only at the last length; auto_bisc's description must coincide with the property on all permutations of length <= 8. Two-sided test of the driver's sanity checks; list input in several orders; corpus of properties that drive the driver into its bad-basis branch. n = 6 inputs with few long members.",
        "n <= 5, m <= 4; auto_bisc under a time budget (hit = inconclusive).",
        "DESIGN.md 4/C17",
    ),
    "C19": (
        "Hypothesis-generated bases around the strategies' boundaries + all subsets of the needed patterns; oracle = hypotheses re-implemented on tuples with reference containment; metamorphic invariance under order, repetition and the eight symmetries",
        "find_strategies (quick and slow) and every Strategy(basis).applies() are compared with the re-implemented hypotheses for every symmetric image and order variant. Exhaustive form sweep: each strategy's needed patterns plus every single further element of length 2-7 (8 thorough).",
        "Basis elements of length >= 2. FinitelyManySimples line trusts PinWords.has_finite_simples (C16). Rd2134/Ru2143 shapes are documented only by code.",
        "DESIGN.md 4/C19",
    ),
    "C20": (
        "model-based stateful testing with fault injection (op-list strategy + Hypothesis RuleBasedStateMachine) over a scratch directory; exhaustive check of all shipped data against the family definitions; automaton database histories with own language-equivalence BFS",
        "Write/rewrite/read/delete/truncate/empty/garbage histories against a dict model of the directory, including user files named like the shipped data sets (never written / written then deleted); every shipped (family, length) is a duplicate-free partition of S_k with good = the family by the C12 oracle definitions; loaded automata are language-equivalent to fresh ones after any store/create/load/forget history. User files named like shipped data sets; databases with automata of permutations without pin words; create_dfa_db_for_length as a whole (lengths to 4 quick, 6 thorough); equinumerous properties so that successive outputs have equal size and different content. Truncation also at structural boundaries of the text.",
        "Fault model = missing, truncated, emptied, non-JSON bytes. Two emptied len9 files are asserted to be reported invalid and skipped.",
        "DESIGN.md 4/C20",
    ),
}

NOT_YET = {}
# properties whose module exports FUZZ = {name: (check, strategy)} and runs engine.fuzz("hyp:<name>") in the thorough tier
HYP_FUZZ = {"C02", "C04", "C05", "C06", "C08", "C09", "C10", "C13", "C18", "C20"}


def main():
    props = [json.loads(l) for l in open(os.path.join(ROOT, "properties.jsonl"))]
    checks = []
    na = []
    for p in props:
        pid = p["id"]
        if pid in CHECKS:
            tech, text, note, ref = CHECKS[pid]
            if pid in HYP_FUZZ:
                tech += "; thorough tier: coverage-guided atheris campaigns that drive the same structured Hypothesis generator through fuzz_one_input, oracle inside the target"
            checks.append(
                {
                    "property_id": pid,
                    "quick_cmd": f"./check {pid} --tier quick",
                    "thorough_cmd": f"./check {pid} --tier thorough",
                    "evidence_file": f"evidence/{pid}.json",
                    "replay_cmd_template": f"./check {pid} --replay {{path}}",
                    "engine": "pv",
                    "level_claimed": {"category": "exploration", "text": text, "design_ref": ref},
                    "level_note": note,
                    "technique": tech,
                }
            )
        else:
            na.append({"property_id": pid, "reason": NOT_YET.get(pid, "check not built yet (build in progress); will be decided by property-based testing, see DESIGN.md section 4")})
    manifest = {
        "version": 1,
        "setup_cmd": "sh tools/setup.sh",
        "hooks": {
            "guard": "PERMUTA_VERIF",
            "enable": "no source hooks are needed: the repository is pure Python and every check imports /repo's working tree in a fresh interpreter (PERMUTA_VERIF=1 is exported by ./check but read by nothing in /repo)",
            "baseline_off_cmd": "cd /repo && /venv/bin/python -m pytest -ra -q -p no:cacheprovider --timeout=900 --continue-on-collection-errors",
            "source_commits": [],
            "add_only": True,
        },
        "engines": [
            {
                "name": "pv",
                "path": "pv/",
                "serves_properties": [c["property_id"] for c in checks],
                "kind_free_text": "property-based testing: exhaustive small-world enumeration, Hypothesis generators and rule-based state machines, schedule-owning thread harness, atheris targets; independent reference model in pv/oracle.py",
            }
        ],
        "checks": checks,
        "not_applicable": na,
        "notes": "All checks: ./check <id> --tier quick|thorough [--replay file]; exit 0 held / 1 VIOLATION / 2 harness error. Known findings: known_findings.json.",
    }
    with open(os.path.join(ROOT, "MANIFEST.json"), "w") as fh:
        json.dump(manifest, fh, indent=1)
    print("checks:", len(checks), "not_applicable:", len(na))


if __name__ == "__main__":
    main()

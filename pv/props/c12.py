"""C12 - sorting operators, the Simion-Schmidt map and named families match definitions."""
import itertools

from hypothesis import strategies as st

from permuta import Perm
from permuta.bisc import perm_properties as pp
from permuta.permutils.bijections import Bijections
from permuta.permutils.groups import dihedral_group

from .. import engine, gen
from .. import oracle as ref
from .. import stats_ref as S
from ..engine import BAD, OK

META = {
    "level": "exploration",
    "rule": (
        "exhaustive: every permutation up to the tier's bound for the devices, the sortable predicates, their "
        "pattern characterisations, the sort counts and the family predicates; per length the whole Simion-Schmidt "
        "map (image, injectivity, fixed left-to-right minima, inverse, rejection outside either domain); generated "
        "permutations of length 8-11 for the cheap parts; disturbed histories: a call after an earlier call that was aborted at a generated line by an asynchronous exception, and 2-4 calls overlapping in time under an owned schedule (every line of perm.py a preemption point), each compared with the undisturbed oracle value. Oracle: devices simulated with real containers, "
        "characterisations by reference containment (cross-checked against the devices in the self-test), family "
        "definitions on positions/values, Young tableau shape through Greene's theorem. Non-trivial: length >= 4. "
        "Distinct = case content."
    ),
    "assumptions": [
        "'smooth' is what the docstring says (0213- and 1032-avoiding), not the Schubert-variety notion",
        "the documented/test-pinned conventions for dihedral and alternating groups of degree < 3 are adopted, not judged",
        "bkv_sortable is not covered (not named by the property; it prints debugging output)",
    ],
}


# ------------------------------------------------------------------ devices
def bubble_pass(p):
    a = list(p)
    for i in range(len(a) - 1):
        if a[i] > a[i + 1]:
            a[i], a[i + 1] = a[i + 1], a[i]
    return tuple(a)


def quick_pass(p):
    """Split at all strong fixed points; each remaining block: smaller elements, pivot =
    first element, larger elements (orders kept)."""
    sfp = set(S.strong_fixed_points(p))
    out, block = [], []

    def flush():
        if block:
            f = block[0]
            out.extend([x for x in block if x < f] + [f] + [x for x in block if x > f])
            block.clear()

    for i, v in enumerate(p):
        if i in sfp:
            flush()
            out.append(v)
        else:
            block.append(v)
    flush()
    return tuple(out)


W2 = [(1, 2, 3, 0), ((2, 1, 3, 0), frozenset({(1, 4)}))]
QS = [(2, 1, 0), (1, 3, 0, 2), ((1, 0, 3, 2), frozenset({(2, 2)}))]


def _avoids(p, basis):
    return ref.avoids_all(p, basis)


def selftest():
    ident = lambda q: q == tuple(range(len(q)))  # noqa: E731
    for p in ref.perms_upto(6):
        if ident(S.stack_pass(p)) != _avoids(p, [(1, 2, 0)]):
            raise engine.HarnessError("oracle: stack device vs Av(231)")
        if ident(bubble_pass(p)) != _avoids(p, [(1, 2, 0), (2, 1, 0)]):
            raise engine.HarnessError("oracle: bubble device vs Av(231,321)")
        if ident(S.pop_stack_pass(p)) != _avoids(p, [(1, 2, 0), (2, 0, 1)]):
            raise engine.HarnessError("oracle: pop-stack device vs Av(231,312)")
        if ident(S.stack_pass(S.stack_pass(p))) != _avoids(p, W2):
            raise engine.HarnessError("oracle: West-2 characterisation")
        if ident(quick_pass(p)) != _avoids(p, QS):
            raise engine.HarnessError("oracle: quicksort characterisation")


# ------------------------------------------------------------------ families
def baxter(p):
    n = len(p)
    for j in range(n - 1):
        for i in range(j):
            for k in range(j + 2, n):
                if p[j + 1] < p[i] < p[k] < p[j]:  # 2-41-3
                    return False
                if p[j] < p[k] < p[i] < p[j + 1]:  # 3-14-2
                    return False
    return True


def simsun(p):
    n = len(p)
    for k in range(n):
        w = [v for v in p if v <= k]
        if any(w[i] > w[i + 1] > w[i + 2] for i in range(len(w) - 2)):
            return False
    return True


def forest_like(p):
    if ref.contains(p, (0, 2, 1, 3)):
        return False
    for a, b, c, d in ref.occ((1, 0, 3, 2), p):
        if not any(p[a] < p[m] < p[d] for m in range(b + 1, c)):
            return False
    return True


def dihedral(p):
    n = len(p)
    if n < 3:
        return False
    return any(all(p[i] == (a + s * i) % n for i in range(n)) for a in range(n) for s in (1, -1))


def even(p):
    return len(S.inversions(p)) % 2 == 0


def greene(p):
    """(lambda1, lambda2) of the RSK shape by Greene's theorem (brute force)."""
    n = len(p)
    l1 = ref.lis(p)
    best = 0
    for mask in range(1 << n):
        idx = [i for i in range(n) if mask >> i & 1]
        if len(idx) <= best:
            continue
        sub = [p[i] for i in idx]
        if ref.lds(tuple(sub)) <= 2:
            best = len(idx)
    return l1, best - l1


def check_perm(case):
    p = tuple(case)
    n = len(p)
    P = Perm(p)
    ident = tuple(range(n))
    devices = (
        ("stack_sort", P.stack_sort(), S.stack_pass(p), P.stack_sortable(), [(1, 2, 0)]),
        ("pop_stack_sort", P.pop_stack_sort(), S.pop_stack_pass(p), P.pop_stack_sortable(), [(1, 2, 0), (2, 0, 1)]),
        ("bubble_sort", P.bubble_sort(), bubble_pass(p), P.bubble_sortable(), [(1, 2, 0), (2, 1, 0)]),
        ("quick_sort", P.quick_sort(), quick_pass(p), P.quick_sortable(), QS),
    )
    for name, got, want, sortable, basis in devices:
        if tuple(got) != want or not isinstance(got, Perm):
            return BAD(name, {"got": list(got), "want": list(want)})
        if sortable != (want == ident):
            return BAD(name + "able", {"got": sortable})
        if sortable != _avoids(p, basis):
            return BAD(name + "able_characterisation", {"got": sortable})
    w2 = S.stack_pass(S.stack_pass(p))
    if P.west_2_stack_sortable() != (w2 == ident) or P.west_2_stack_sortable() != _avoids(p, W2):
        return BAD("west_2_stack_sortable", {"got": P.west_2_stack_sortable()})
    if P.west_3_stack_sortable() != (S.stack_pass(w2) == ident):
        return BAD("west_3_stack_sortable", {"got": P.west_3_stack_sortable()})
    if P.count_stack_sorts() != S.passes(p, S.stack_pass) or P.count_pop_stack_sorts() != S.passes(p, S.pop_stack_pass):
        return BAD("sort_counts", {})
    fams = (
        ("baxter", pp.baxter(P), baxter(p)),
        ("simsun", pp.simsun(P), simsun(p)),
        ("smooth", pp.smooth(P), _avoids(p, [(0, 2, 1, 3), (1, 0, 3, 2)])),
        ("forest_like", pp.forest_like(P), forest_like(p)),
        ("dihedral", pp.dihedral(P), dihedral(p)),
        ("in_alternating_group", pp.in_alternating_group(P), even(p) if n >= 3 else n % 2 == 1 or n == 0),
        ("av_231_and_mesh", pp.av_231_and_mesh(P), _avoids(p, [(1, 2, 0), ((0, 1, 5, 2, 3, 4), frozenset({(1, 6), (4, 5), (4, 6)}))])),
        ("hard_mesh", pp.hard_mesh(P), _avoids(p, [((0, 1, 2), frozenset({(0, 0), (1, 1), (2, 2), (3, 3)})), ((0, 1, 2), frozenset({(0, 3), (1, 2), (2, 1), (3, 0)}))])),
    )
    for name, got, want in fams:
        if got != want or not isinstance(got, bool):
            return BAD("family_" + name, {"got": got, "want": want})
    if n <= 9:
        l1, l2 = greene(p)
        if pp.yt_perm_avoids_22(P) != (not (l1 >= 2 and l2 >= 2)) or pp.yt_perm_avoids_32(P) != (not (l1 >= 3 and l2 >= 2)):
            return BAD("family_young_tableau_shape", {"lambda1": l1, "lambda2": l2, "avoids22": pp.yt_perm_avoids_22(P), "avoids32": pp.yt_perm_avoids_32(P)})
    return OK(n >= 4, f"len{min(n, 9)}")


def check_dihedral_group(case):
    n = case
    got = [tuple(x) for x in dihedral_group(n)]
    want = {p for p in ref.perms(n) if dihedral(p)} if n <= 8 else None
    if want is not None and (set(got) != want or len(got) != len(set(got)) and n >= 3):
        return BAD("dihedral_group", {"n": n, "got": sorted(got)})
    if n >= 3 and len(set(got)) != 2 * n:
        return BAD("dihedral_group_size", {"n": n, "size": len(set(got))})
    return OK(n >= 3, "dihedral_group", key=f"dg{n}")


def check_affine(case):
    """Members of the dihedral family are rare (2n of n!): the predicate is checked on every
    affine map i -> a*i + b (mod n), a coprime to n - the members and their nearest non-members -
    for lengths far beyond the exhaustive sweep."""
    n = case
    import math as _m

    for a in range(1, n):
        if _m.gcd(a, n) != 1:
            continue
        for b in range(n):
            p = tuple((a * i + b) % n for i in range(n))
            want = dihedral(p)
            if pp.dihedral(Perm(p)) != want:
                return BAD("family_dihedral_affine", {"n": n, "a": a, "b": b, "got": pp.dihedral(Perm(p)), "want": want})
            if n >= 3 and pp.in_alternating_group(Perm(p)) != even(p):
                return BAD("family_alternating_affine", {"n": n, "a": a, "b": b})
    got = {tuple(x) for x in dihedral_group(n)}
    want_group = {tuple((s * i + b) % n for i in range(n)) for b in range(n) for s in (1, n - 1)} if n >= 3 else set()
    if got != want_group:
        return BAD("dihedral_group_large", {"n": n, "size": len(got)})
    return OK(n >= 8, "affine", key=f"affine{n}")


def check_simion_schmidt(case):
    n = case
    src = ref.av([(0, 1, 2)], n)
    dst = set(ref.av([(0, 2, 1)], n))
    seen = {}
    for p in src:
        img = Bijections.simion_and_schmidt(Perm(p))
        t = tuple(img)
        if not isinstance(img, Perm) or t not in dst:
            return BAD("ss_image_not_132_avoider", {"perm": list(p), "image": list(t)})
        if t in seen:
            return BAD("ss_not_injective", {"a": list(seen[t]), "b": list(p)})
        seen[t] = p
        lm = S.ltrmin(p)
        if S.ltrmin(t) != lm or any(t[i] != p[i] for i in lm):
            return BAD("ss_ltrmin_not_fixed", {"perm": list(p), "image": list(t)})
        back = Bijections.simion_and_schmidt(img, inverse=True)
        if tuple(back) != p:
            return BAD("ss_inverse", {"perm": list(p), "image": list(t), "back": list(back)})
    if set(seen) != dst:
        return BAD("ss_not_onto", {"n": n, "missing": sorted(dst - set(seen))[:3]})
    srcset = set(src)
    for p in ref.perms(n):
        for inverse, dom in ((False, srcset), (True, dst)):
            if p in dom:
                continue
            try:
                r = Bijections.simion_and_schmidt(Perm(p), inverse)
            except ValueError:
                continue
            return BAD("ss_accepts_outside_domain", {"perm": list(p), "inverse": inverse, "returned": list(r)})
    return OK(n >= 3, "simion_schmidt", key=f"ss{n}")


# ------------------------------------------------------------------ disturbed histories
def _ident(q):
    return q == tuple(range(len(q)))


OPS = {
    "stack_sort": (lambda P: tuple(P.stack_sort()), S.stack_pass),
    "pop_stack_sort": (lambda P: tuple(P.pop_stack_sort()), S.pop_stack_pass),
    "bubble_sort": (lambda P: tuple(P.bubble_sort()), bubble_pass),
    "quick_sort": (lambda P: tuple(P.quick_sort()), quick_pass),
    "stack_sortable": (lambda P: P.stack_sortable(), lambda p: _ident(S.stack_pass(p))),
    "pop_stack_sortable": (lambda P: P.pop_stack_sortable(), lambda p: _ident(S.pop_stack_pass(p))),
    "bubble_sortable": (lambda P: P.bubble_sortable(), lambda p: _ident(bubble_pass(p))),
    "quick_sortable": (lambda P: P.quick_sortable(), lambda p: _ident(quick_pass(p))),
    "west_2_stack_sortable": (lambda P: P.west_2_stack_sortable(), lambda p: _ident(S.stack_pass(S.stack_pass(p)))),
    "west_3_stack_sortable": (lambda P: P.west_3_stack_sortable(), lambda p: _ident(S.stack_pass(S.stack_pass(S.stack_pass(p))))),
    "count_stack_sorts": (lambda P: P.count_stack_sorts(), lambda p: S.passes(p, S.stack_pass)),
    "count_pop_stack_sorts": (lambda P: P.count_pop_stack_sorts(), lambda p: S.passes(p, S.pop_stack_pass)),
    "baxter": (pp.baxter, baxter),
    "simsun": (pp.simsun, simsun),
    "forest_like": (pp.forest_like, forest_like),
}
import permuta.patterns.perm as _perm_mod  # noqa: E402

TRACE_FILES = {_perm_mod.__file__, pp.__file__}
LINE_BUDGET = 400000  # a single call on a permutation of length <= 10 executes a few thousand traced lines


def check_disturbed(case):
    """The operators are functions of their argument alone: they give the same output after an
    earlier call was aborted part-way (an asynchronous exception at a generated line) and while
    other calls are running in other threads (generated interleaving, every line of perm.py a
    preemption point).  case: {"mode": "abort", "first": [op, perm], "k": int, "then": [[op, perm]..]}
    or {"mode": "threads", "calls": [[op, perm]..], "choices": [..]}"""
    from .. import disturb

    def lib_call(op, perm):
        return lambda: OPS[op][0](Perm(perm))

    def want(op, perm):
        return OPS[op][1](tuple(perm))

    if case["mode"] == "abort":
        op, perm = case["first"]
        status, val, lines = disturb.abort_at(lib_call(op, perm), TRACE_FILES, case["k"])
        if status == "done" and val != want(op, perm):
            return BAD("undisturbed_" + op, {"perm": perm, "got": val})
        for op2, perm2 in case["then"]:
            st2, got = disturb.bounded(lib_call(op2, perm2), TRACE_FILES, LINE_BUDGET)
            if st2 == "budget":
                return BAD("no_termination_after_aborted_call", {"aborted": [op, perm, case["k"]], "call": [op2, perm2], "line_budget": LINE_BUDGET})
            if got != want(op2, perm2):
                return BAD("wrong_after_aborted_call", {"aborted": [op, perm, case["k"]], "call": [op2, perm2], "got": got, "want": want(op2, perm2)})
        return OK(status == "aborted" and lines >= 3, "abort_mid_call" if status == "aborted" else "abort_point_beyond_call")
    calls = case["calls"]
    s, stalled = disturb.interleave([lib_call(op, perm) for op, perm in calls], TRACE_FILES, case["choices"])
    if stalled:
        raise engine.HarnessError("C12 disturbed: scheduler stalled")
    if s.overrun:
        return BAD("no_termination_under_interleaving", {"calls": calls})
    for i, ((op, perm), (status, got)) in enumerate(zip(calls, s.results)):
        if status == "exc":
            if not engine.is_lib_exception(s.exceptions[i]):
                raise engine.HarnessError(f"C12 disturbed: harness exception {got}")
            return BAD("exception_under_interleaving", {"call": [op, perm], "exc": got, "switches": s.switches})
        if status != "ok" or got != want(op, perm):
            return BAD("wrong_under_interleaving", {"call": [op, perm], "got": got, "want": want(op, perm), "switches": s.switches})
    return OK(s.switches >= 2, "interleaved", key=engine.jdump(calls) + "|" + str(hash(tuple(s.trace))))


def check_light(case):
    """The four devices, their sortable predicates and the sort counts alone (no families), so
    that whole further lengths and long block-structured permutations can be swept."""
    p = tuple(case)
    P = Perm(p)
    ident = tuple(range(len(p)))
    for name, got, want, sortable in (
        ("stack_sort", P.stack_sort(), S.stack_pass(p), P.stack_sortable()),
        ("pop_stack_sort", P.pop_stack_sort(), S.pop_stack_pass(p), P.pop_stack_sortable()),
        ("bubble_sort", P.bubble_sort(), bubble_pass(p), P.bubble_sortable()),
        ("quick_sort", P.quick_sort(), quick_pass(p), P.quick_sortable()),
    ):
        if tuple(got) != want:
            return BAD("light_" + name, {"perm": list(p), "got": list(got), "want": list(want)})
        if sortable != (want == ident):
            return BAD("light_" + name + "able", {"perm": list(p), "got": sortable})
    if P.count_stack_sorts() != S.passes(p, S.stack_pass) or P.count_pop_stack_sorts() != S.passes(p, S.pop_stack_pass):
        return BAD("light_sort_counts", {"perm": list(p)})
    w2 = S.stack_pass(S.stack_pass(p))
    if P.west_2_stack_sortable() != (w2 == ident) or P.west_3_stack_sortable() != (S.stack_pass(w2) == ident):
        return BAD("light_west", {"perm": list(p)})
    sfp = len(S.strong_fixed_points(p))
    return OK(len(p) >= 8, "many_strong_fixed_points" if sfp >= 3 else "few_strong_fixed_points", key="light" + str(p))


CHECKS = {"light": check_light, "disturbed": check_disturbed, "perm": check_perm, "dihedral_group": check_dihedral_group, "simion_schmidt": check_simion_schmidt, "affine": check_affine}


def shard_perms(acc, shard, nshards, max_n):
    for i, p in enumerate(ref.perms_upto(max_n)):
        if i % nshards == shard:
            acc.record("perm", check_perm, list(p))
    for n in range(0, max_n + 2):
        if n % nshards == shard:
            acc.record("simion_schmidt", check_simion_schmidt, n)
        if (n + 5) % nshards == shard:
            acc.record("dihedral_group", check_dihedral_group, n)


@st.composite
def block_perms(draw):
    """direct sums of 3-9 small blocks (many of them single points - strong fixed points -
    between blocks of 2-4 points), total length up to about 20: the recursive / splitting
    structure of the sorting algorithms is steered by exactly this shape"""
    parts = []
    for _ in range(draw(st.integers(3, 9))):
        size = draw(st.sampled_from([1, 1, 1, 2, 2, 3, 3, 4]))
        parts.append(tuple(draw(gen.perm_of(size))))
    if draw(st.integers(0, 5)) == 0:
        parts = [tuple(reversed(b)) for b in parts]
    out = ref.direct_sum(*parts) if len(parts) > 1 else parts[0]
    if draw(st.integers(0, 7)) == 0:
        out = tuple(reversed(out))
    return list(out)


def shard_light(acc, shard, nshards, n):
    for i, p in enumerate(ref.perms(n)):
        if i % nshards == shard:
            acc.record("light", check_light, list(p))


@st.composite
def disturbed_cases(draw):
    call = st.tuples(st.sampled_from(sorted(OPS)), gen.perms(3, 9).map(list)).map(list)
    if draw(st.booleans()):
        return {"mode": "abort", "first": draw(call), "k": draw(st.integers(1, 120)), "then": draw(st.lists(call, min_size=1, max_size=3))}
    calls = draw(st.lists(call, min_size=2, max_size=4))
    style = draw(st.sampled_from(["uniform", "bursty"]))
    if style == "uniform":
        choices = draw(st.lists(st.integers(0, 3), min_size=20, max_size=400))
    else:
        choices = []
        for _ in range(draw(st.integers(2, 30))):
            choices.extend([draw(st.integers(0, 3))] * draw(st.integers(1, 40)))
    return {"mode": "threads", "calls": calls, "choices": choices}


def shard_generated(acc, shard, nshards, n_perm):
    engine.hyp_run(acc, "disturbed", check_disturbed, disturbed_cases(), n_perm, shard)
    engine.hyp_run(acc, "light", check_light, block_perms(), 15 * n_perm, shard)
    engine.hyp_run(acc, "perm", check_perm, gen.perms(8, 11).map(list), n_perm, shard)
    for n in range(3, 31):
        if n % nshards == shard:
            acc.record("affine", check_affine, n)


def run(acc, tier):
    engine.pmap(acc, shard_light, extra=((9,) if tier == "quick" else (10,)))
    if tier == "quick":
        engine.pmap(acc, shard_perms, extra=(7,))
        engine.pmap(acc, shard_generated, extra=(40,))
    else:
        engine.pmap(acc, shard_perms, extra=(8,))
        engine.pmap(acc, shard_generated, extra=(5000,))

"""C07 - concurrent queries on a permutation class are correct under every interleaving."""
import hashlib
import os
import sys
import threading
import time

from hypothesis import strategies as st

import permuta.perm_sets.permset as permset_mod
from permuta import Av, Perm

from .. import engine, gen, sched
from .. import oracle as ref
from ..engine import BAD, OK
from .c02 import _is_mesh_basis, _to_lib, _to_ref, classical_basis, mesh_basis

META = {
    "level": "exploration",
    "rule": (
        "case = (basis, 2-4 thread programs of 1-3 queries from {count, sorted(of_length), membership, "
        "list(up_to_length), re-create Av(equal basis) then count}, schedule). The harness owns the schedule: "
        "every line of permset.py is a preemption point and so is every step of a lazily consumed enumeration, the class lock is replaced by a cooperative lock whose "
        "acquisition is a scheduling point; in a third of the cases the class is not created beforehand, so the threads also race to construct it from equal bases; schedules are Hypothesis-generated choice lists, plus PCT-style "
        "priority schedules, plus round-robin / run-to-completion corner schedules. Every query result is compared "
        "with the sequential answer of the brute-force model; exceptions and deadlocks are violations. A real-"
        "thread stress run (real lock, switch interval 1e-6 s) complements it. Non-trivial: some thread was blocked "
        "on the class lock or >= 2 context switches happened while levels were being built. Distinct = distinct "
        "executed schedule trace (hash of the sequence of thread ids actually run) per case."
        " Finite classes with a short query parked in its first lines while another thread builds past the last non-empty level. Publication-point schedules: the building thread is parked at the first scheduling point after the list of levels grew for the k-th time."
    ),
    "assumptions": [
        "schedules are sampled, not enumerated; preemption granularity is one source line of permset.py (library code called from there runs atomically)",
        "the stress run uses the real lock and OS scheduling: its failures are real but not schedule-replayable",
    ],
}

TRACE_FILES = {permset_mod.__file__}
NMAX_CL, NMAX_MESH = 6, 4


def selftest():
    """The harness itself: under a round-robin schedule a lock-free read-modify-write loses an
    update, the same workload under the cooperative lock never does, and an AB/BA lock order
    is reported as a deadlock."""
    from .. import sched_selftest as wl

    files = {wl.__file__}
    rr = lambda step, runnable, prev: runnable[step % len(runnable)]  # noqa: E731
    box = [0]
    s = sched.Sched(rr, files)
    res, stalled = s.run([lambda: wl.bump(box, None), lambda: wl.bump(box, None)])
    if stalled or box[0] != 1 or s.switches < 2:
        raise engine.HarnessError(f"C07 harness self-test: lock-free race not reproduced (box={box[0]}, switches={s.switches})")
    box = [0]
    s = sched.Sched(rr, files)
    lock = sched.SchedLock(s)
    res, stalled = s.run([lambda: wl.bump(box, lock), lambda: wl.bump(box, lock), lambda: wl.bump(box, lock)])
    if stalled or box[0] != 3 or s.deadlock or s.block_events < 1 or any(r[0] != "ok" for r in res):
        raise engine.HarnessError(f"C07 harness self-test: cooperative lock failed (box={box[0]}, blocked={s.block_events})")
    s = sched.Sched(rr, files)
    la, lb = sched.SchedLock(s), sched.SchedLock(s)

    def ab():
        with la:
            wl.bump([0], None)
            with lb:
                return 1

    def ba():
        with lb:
            wl.bump([0], None)
            with la:
                return 2

    res, stalled = s.run([ab, ba])
    if not s.deadlock:
        raise engine.HarnessError("C07 harness self-test: AB/BA deadlock not detected")


class LibraryIteratorError(Exception):
    """Raised by the harness when next() on an iterator returned by the library raises something
    other than StopIteration (the traceback of such an exception has no library frame when the
    iterator is a built-in one, e.g. a dict iterator over a level)."""


def _expected(rbasis, q):
    kind = q[0]
    if kind == "count":
        return len(ref.av(rbasis, q[1]))
    if kind == "of_length":
        return sorted(ref.av(rbasis, q[1]))
    if kind == "in":
        return ref.avoids_all(tuple(q[1]), rbasis)
    if kind == "up_to":
        return [sorted(ref.av(rbasis, n)) for n in range(q[1] + 1)]
    if kind == "recreate_count":
        return len(ref.av(rbasis, q[1]))
    raise engine.HarnessError(kind)


def _run_query(av, jbasis, q, pause=None):
    """pause(): a scheduling point in the caller's own code - the results of of_length /
    up_to_length are consumed lazily, one permutation at a time, as user code does, so other
    threads can run (and build or compact levels) while an enumeration is half-way."""
    kind = q[0]
    if av is None:
        # the class does not exist yet in this process: every thread builds it from an equal basis
        av = Av([_to_lib(b) for b in jbasis])

    def drain(it):
        out = []
        it = iter(it)
        while True:
            try:
                p = next(it)
            except StopIteration:
                break
            except Exception as exc:  # pylint: disable=broad-except
                # an iterator handed out by the library failed while being consumed the normal way
                raise LibraryIteratorError(f"{type(exc).__name__}: {exc}") from exc
            out.append(tuple(p))
            if pause is not None:
                pause()
        return out

    if kind == "count":
        return av.count(q[1])
    if kind == "of_length":
        return sorted(drain(av.of_length(q[1])))
    if kind == "in":
        return Perm(q[1]) in av
    if kind == "up_to":
        got = drain(av.up_to_length(q[1]))
        return [sorted(p for p in got if len(p) == n) for n in range(q[1] + 1)]
    if kind == "recreate_count":
        return Av([_to_lib(b) for b in jbasis]).count(q[1])
    raise engine.HarnessError(kind)


def _make_chooser(spec):
    if spec["mode"] == "list":
        return sched.chooser_from_list(spec["choices"])
    if spec["mode"] == "pct":
        return sched.chooser_pct(spec["prio"], spec["changes"])
    if spec["mode"] == "round_robin":
        return lambda step, runnable, prev: runnable[step % len(runnable)]
    raise engine.HarnessError(spec["mode"])


def _chooser_at_pause(spec, pauses):
    """Run thread `first` until it has consumed `after` items of an enumeration (unit "pause") or
    has been scheduled `after` times (unit "step": the first lines of its first call), then
    the other threads to completion in index order, then the rest of `first`: puts the other
    threads' level building and compaction in the middle of a half-consumed enumeration."""
    first, after = spec["first"], spec["after"]
    unit = spec.get("unit", "pause")
    by_steps = unit == "step"
    ran = [0]
    seen = [None, 0]  # last observed number of published levels, publications seen

    def progress(f):
        if unit == "publish":
            # unit "publish": `first` is parked at the first scheduling point after the class's
            # shared list of levels has grown for the `after`-th time - the moment a new level
            # became visible to lock-free readers, whatever the code does to it next
            av = pauses.get("av")
            cur = len(av.cache) if av is not None else 0
            if seen[0] is not None and cur > seen[0]:
                seen[1] += 1
            seen[0] = cur
            return seen[1]
        return ran[0] if by_steps else pauses.get(f, 0)

    def choose(step, runnable, prev):
        f = first % (max(runnable) + 1)
        if f in runnable and progress(f) < after:
            ran[0] += 1
            return f
        others = [i for i in runnable if i != f]
        return others[0] if others else runnable[0]

    return choose


def _validate(jbasis, programs):
    """Malformed cases (only the structural shrinker can make them) are harness errors."""
    if not jbasis or not programs or any(not prog for prog in programs):
        raise engine.HarnessError("C07: empty basis / program")
    for prog in programs:
        for q in prog:
            if not isinstance(q, list) or len(q) != 2 or q[0] not in ("count", "of_length", "in", "up_to", "recreate_count"):
                raise engine.HarnessError(f"C07: malformed query {q!r}")
            if q[0] == "in":
                if sorted(q[1]) != list(range(len(q[1]))):
                    raise engine.HarnessError(f"C07: malformed query {q!r}")
            elif not isinstance(q[1], int) or q[1] < 0:
                raise engine.HarnessError(f"C07: malformed query {q!r}")


def check_schedule(case):
    jbasis, programs, spec = case["basis"], case["programs"], case["schedule"]
    _validate(jbasis, programs)
    rbasis = [_to_ref(b) for b in jbasis]
    Av.clear_cache()
    pauses = {}
    s = sched.Sched(_chooser_at_pause(spec, pauses) if spec["mode"] == "at_pause" else _make_chooser(spec), TRACE_FILES)
    old_switch = sys.getswitchinterval()
    # every lock permset.py holds or creates becomes cooperative, whatever its locking scheme
    # (one class-wide lock today); instances made inside the block get cooperative locks too
    with sched.Interpose(s, permset_mod, [Av] + [c for c in Av.__mro__[1:] if c.__module__.startswith("permuta")]):
        try:
            av = Av([_to_lib(b) for b in jbasis]) if case.get("precreate", True) else None
            pauses["av"] = av

            def pause():
                me = threading.current_thread().sched_idx
                pauses[me] = pauses.get(me, 0) + 1
                s.yield_point(me)

            funcs = [(lambda prog=prog: [_run_query(av, jbasis, q, pause) for q in prog]) for prog in programs]
            results, stalled = s.run(funcs)
        finally:
            sys.setswitchinterval(old_switch)
    Av.clear_cache()
    if stalled:
        raise engine.HarnessError(f"C07 harness: no scheduling progress for {s.stall_s}s (a foreign blocking primitive?)")
    if s.overrun:
        raise engine.HarnessError("C07 harness: step budget exceeded")
    trace_hash = hashlib.blake2b(bytes(s.trace), digest_size=8).hexdigest()
    if s.deadlock:
        return BAD("deadlock", {"trace_len": len(s.trace), "blocked": sorted(s.blocked)})
    for i, (status, val) in enumerate(results):
        if status == "exc":
            if isinstance(s.exceptions[i], LibraryIteratorError):
                return BAD("exception_while_consuming_enumeration", {"thread": i, "exc": val, "switches": s.switches})
            if not engine.is_lib_exception(s.exceptions[i]):
                raise engine.HarnessError(f"C07 harness: exception outside the library in thread {i}: {val}")
            return BAD("exception", {"thread": i, "exc": val, "switches": s.switches})
        if status != "ok":
            return BAD("aborted", {"thread": i, "status": status})
        for q, got in zip(programs[i], val):
            want = _expected(rbasis, q)
            if got != want:
                return BAD("wrong_answer_" + q[0], {"thread": i, "query": q, "got": _brief(got), "want": _brief(want), "switches": s.switches, "blocked_events": s.block_events})
    nt = s.block_events >= 1 or s.switches >= 2
    labels = ["mesh" if _is_mesh_basis(jbasis) else "classical", f"threads{len(programs)}"]
    if s.block_events:
        labels.append("lock_contended")
    return OK(nt, *labels, key=f"{engine.jdump(case['basis'])}|{engine.jdump(programs)}|{trace_hash}")


def _brief(x):
    r = repr(x)
    return r if len(r) < 200 else r[:200] + "..."


def check_stress(case):
    """Real threads, real lock, tiny switch interval.  case: {"basis", "programs", "repeat"}"""
    jbasis, programs = case["basis"], case["programs"]
    _validate(jbasis, programs)
    rbasis = [_to_ref(b) for b in jbasis]
    want = [[_expected(rbasis, q) for q in prog] for prog in programs]
    old = sys.getswitchinterval()
    sys.setswitchinterval(1e-6)
    try:
        for rep in range(case.get("repeat", 20)):
            Av.clear_cache()
            av = Av([_to_lib(b) for b in jbasis])
            results = [None] * len(programs)
            barrier = threading.Barrier(len(programs))

            def work(i, prog):
                try:
                    barrier.wait(10)
                    results[i] = ("ok", [_run_query(av, jbasis, q) for q in prog])
                except BaseException as exc:  # pylint: disable=broad-except
                    results[i] = ("exc" if engine.is_lib_exception(exc) or isinstance(exc, LibraryIteratorError) else "harness", f"{type(exc).__name__}: {exc}")

            ths = [threading.Thread(target=work, args=(i, prog), daemon=True) for i, prog in enumerate(programs)]
            for t in ths:
                t.start()
            for t in ths:
                t.join(60)
                if t.is_alive():
                    return BAD("stress_hang", {"rep": rep})
            for i, (status, val) in enumerate(results):
                if status == "harness":
                    raise engine.HarnessError(f"C07 stress: exception outside the library: {val}")
                if status != "ok":
                    return BAD("stress_exception", {"thread": i, "exc": val, "rep": rep})
                if val != want[i]:
                    bad = next(k for k in range(len(val)) if val[k] != want[i][k])
                    return BAD("stress_wrong_answer", {"thread": i, "query": programs[i][bad], "got": _brief(val[bad]), "want": _brief(want[i][bad]), "rep": rep})
    finally:
        sys.setswitchinterval(old)
    return OK(len(programs) >= 2, "stress")


CHECKS = {"schedule": check_schedule, "stress": check_stress}


# ------------------------------------------------------------------ generators
@st.composite
def programs_for(draw, basis, nthreads=None, same_target=False):
    mesh = _is_mesh_basis(basis)
    nmax = NMAX_MESH if mesh else NMAX_CL
    k = nthreads or draw(st.integers(2, 4))
    progs = []
    for _ in range(k):
        prog = []
        for _ in range(draw(st.integers(1, 3))):
            kind = draw(st.sampled_from(["count", "count", "of_length", "in", "up_to", "recreate_count"]))
            if kind == "in":
                classical_elems = [b for b in basis if not (b and isinstance(b[0], list)) and 1 <= len(b) <= nmax + 1]
                if classical_elems and draw(st.integers(0, 4)) == 0:
                    # a basis element itself: never a member, and exactly what a level under construction may still hold
                    prog.append([kind, list(draw(st.sampled_from(classical_elems)))])
                elif draw(st.booleans()):
                    prog.append([kind, list(draw(gen.perms(1, nmax)))])
                else:
                    # a one-point extension of a member of the class (new point towards the end
                    # more often): a non-member then has few occurrences of basis patterns, at
                    # particular places - the hard cases for any membership shortcut
                    n = draw(st.integers(2, nmax))
                    level = ref.av([_to_ref(b) for b in basis], n - 1)
                    if level:
                        m = list(draw(st.sampled_from(level)))
                        i = draw(st.sampled_from([n - 1, n - 1, n - 2] + list(range(n)))) % n
                        v = draw(st.integers(0, n - 1))
                        ext = [w + 1 if w >= v else w for w in m]
                        ext.insert(i, v)
                        prog.append([kind, ext])
                    else:
                        prog.append([kind, list(draw(gen.perm_of(n)))])
            else:
                prog.append([kind, draw(st.integers(1, nmax))])
        progs.append(prog)
    return progs


@st.composite
def schedule_cases(draw, pct=False):
    basis = draw(st.one_of(classical_basis(), classical_basis(), mesh_basis()))
    programs = draw(programs_for(basis))
    mode = draw(st.sampled_from(["list", "list", "list", "pct", "round_robin", "at_pause", "at_pause"])) if pct else draw(st.sampled_from(["list", "list", "list", "round_robin", "at_pause"]))
    if draw(st.integers(0, 5)) == 0:
        # one thread builds deep levels and is parked right after the k-th level became visible;
        # the others then ask about that level - membership of basis elements, near-members and
        # arbitrary permutations of that length, counts - and run to completion
        basis = [list(q) for q in draw(st.lists(gen.perms(2, 4).map(tuple), min_size=1, max_size=3, unique=True))]
        programs = draw(programs_for(basis, draw(st.integers(2, 3))))
        first = draw(st.integers(0, len(programs) - 1))
        programs[first].insert(0, [draw(st.sampled_from(["count", "of_length", "up_to"])), NMAX_CL])
        other = (first + 1 + draw(st.integers(0, len(programs) - 2))) % len(programs)
        k = draw(st.integers(1, NMAX_CL))
        elems = [b for b in basis if len(b) == k] or basis
        pick = draw(st.integers(0, 2))
        if pick == 0:
            programs[other].insert(0, ["in", list(draw(st.sampled_from(elems)))])
        elif pick == 1:
            programs[other].insert(0, ["in", list(draw(gen.perm_of(k)))])
        else:
            programs[other].insert(0, [draw(st.sampled_from(["count", "of_length"])), k])
        spec = {"mode": "at_pause", "unit": "publish", "first": first, "after": k if draw(st.booleans()) else draw(st.integers(1, NMAX_CL))}
        return {"basis": basis, "programs": programs, "schedule": spec, "precreate": True}
    if draw(st.integers(0, 5)) == 0:
        # a finite class (an increasing and a decreasing pattern): the only classical classes with
        # empty levels.  One thread is parked in the first lines of a short query while another
        # extends the class beyond its last non-empty level, then resumes.
        a, b = draw(st.integers(2, 3)), draw(st.integers(2, 3))
        basis = [list(range(a)), list(range(b - 1, -1, -1))]
        if draw(st.booleans()):
            basis.append(list(draw(gen.perms(3, 4))))
        basis = list(draw(st.permutations(basis)))
        bound = (a - 1) * (b - 1)
        programs = draw(programs_for(basis, draw(st.integers(2, 3))))
        first = draw(st.integers(0, len(programs) - 1))
        small = draw(st.integers(1, bound))
        kind = draw(st.sampled_from(["count", "of_length", "in", "up_to"]))
        level = ref.av([_to_ref(q) for q in basis], small)
        programs[first].insert(0, [kind, list(draw(st.sampled_from(level))) if kind == "in" and level else small] if not (kind == "in" and not level) else ["count", small])
        other = (first + 1 + draw(st.integers(0, len(programs) - 2))) % len(programs)
        programs[other].insert(0, [draw(st.sampled_from(["count", "of_length", "up_to"])), draw(st.integers(bound + 1, NMAX_CL))])
        spec = {"mode": "at_pause", "unit": "step", "first": first, "after": draw(st.integers(1, 14))}
        return {"basis": basis, "programs": programs, "schedule": spec, "precreate": draw(st.integers(0, 3)) != 0}
    if mode == "at_pause":
        # make the scenario likely: the first thread starts with an enumeration of a short level,
        # another thread asks for a level at least two further on
        nmax = NMAX_MESH if _is_mesh_basis(basis) else NMAX_CL
        small = draw(st.integers(1, max(1, nmax - 2)))
        first = draw(st.integers(0, len(programs) - 1))
        programs[first].insert(0, [draw(st.sampled_from(["of_length", "up_to"])), small])
        other = (first + 1 + draw(st.integers(0, len(programs) - 2))) % len(programs)
        programs[other].insert(0, [draw(st.sampled_from(["count", "of_length", "in"])), draw(st.integers(small + 2, nmax))] if True else None)
        if programs[other][0][0] == "in":
            programs[other][0][1] = list(draw(gen.perm_of(programs[other][0][1])))
        return {"basis": basis, "programs": programs, "schedule": {"mode": "at_pause", "first": first, "after": draw(st.integers(1, 6))}}
    if mode == "list":
        style = draw(st.sampled_from(["uniform", "bursty", "short"]))
        if style == "uniform":
            choices = draw(st.lists(st.integers(0, 3), min_size=50, max_size=1500))
        elif style == "bursty":
            # long runs of one thread, switching at random points
            choices = []
            for _ in range(draw(st.integers(2, 40))):
                choices.extend([draw(st.integers(0, 3))] * draw(st.integers(1, 120)))
        else:
            choices = draw(st.lists(st.integers(0, 3), min_size=0, max_size=40))
        spec = {"mode": "list", "choices": choices}
    elif mode == "pct":
        k = len(programs)
        prio = draw(st.permutations(list(range(k))))
        changes = sorted(draw(st.lists(st.integers(1, 2500), min_size=0, max_size=3, unique=True)))
        spec = {"mode": "pct", "prio": list(prio), "changes": changes}
    else:
        spec = {"mode": "round_robin"}
    if draw(st.integers(0, 3)) == 0:
        # a deep build parked part-way (anywhere in its first ~1500 lines) while the other threads
        # run to completion - among them a membership test for a near-member of the class
        if draw(st.integers(0, 3)) != 0:
            # classes that grow: one or two patterns of length 3-4
            basis = [list(q) for q in draw(st.lists(gen.perms(3, 4), min_size=1, max_size=2))]
            programs = draw(programs_for(basis))
        nmax = NMAX_MESH if _is_mesh_basis(basis) else NMAX_CL
        first = draw(st.integers(0, len(programs) - 1))
        programs[first].insert(0, [draw(st.sampled_from(["count", "of_length", "up_to"])), nmax])
        other = (first + 1 + draw(st.integers(0, len(programs) - 2))) % len(programs)
        # the membership test: a non-member all of whose deletions of one of its last entries are
        # members (its basis occurrences all sit at the very end) - or, failing that, a near-member
        rb = [_to_ref(b) for b in basis]
        hard = []
        if not _is_mesh_basis(basis):
            L = draw(st.integers(2, nmax))
            k = max(len(b) for b in rb)
            for m in ref.av(rb, L - 1)[:60]:
                for i in range(max(0, L - 2), L):
                    for v in range(L):
                        ext = tuple(w + 1 if w >= v else w for w in m[:i]) + (v,) + tuple(w + 1 if w >= v else w for w in m[i:])
                        if not ref.avoids_all(ext, rb) and all(ref.avoids_all(ref.delete_point(ext, j), rb) for j in range(max(0, L - k), L)):
                            hard.append(list(ext))
        if hard:
            programs[other].insert(0, ["in", draw(st.sampled_from(hard))])
        else:
            near = [q for prog in draw(programs_for(basis, 3)) for q in prog if q[0] == "in"]
            if near:
                programs[other].insert(0, near[0])
        spec = {"mode": "at_pause", "unit": "step", "first": first, "after": int(2 ** draw(st.floats(3, 11)))}
        return {"basis": basis, "programs": programs, "schedule": spec, "precreate": True}
    precreate = draw(st.integers(0, 2)) != 0
    if not precreate and draw(st.integers(0, 3)) != 0:
        # park one thread within the first lines of its first call (the construction of the class)
        # while the others run to completion
        spec = {"mode": "at_pause", "unit": "step", "first": draw(st.integers(0, len(programs) - 1)), "after": draw(st.integers(1, 40))}
    return {"basis": basis, "programs": programs, "schedule": spec, "precreate": precreate}


@st.composite
def stress_cases(draw, repeat):
    basis = draw(st.one_of(classical_basis(), mesh_basis()))
    k = draw(st.integers(3, 8))
    return {"basis": basis, "programs": draw(programs_for(basis, k)), "repeat": repeat}


def shard_schedules(acc, shard, nshards, n_sched, n_stress, repeat, pct):
    engine.hyp_run(acc, "schedule", check_schedule, schedule_cases(pct), n_sched, shard)
    engine.hyp_run(acc, "stress", check_stress, stress_cases(repeat), n_stress, shard)


def run(acc, tier):
    if tier == "quick":
        engine.pmap(acc, shard_schedules, extra=(250, 3, 5, True))
    else:
        engine.pmap(acc, shard_schedules, extra=(3000, 60, 40, True))

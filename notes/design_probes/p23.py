import itertools, time, random, io, contextlib, collections, traceback
from ref import *
from permuta import *
from permuta.bisc import bisc
random.seed(12)
ALL={n:[Perm(t) for t in perms(n)] for n in range(7)}
stats=collections.Counter(); examples={}
def run(A_list,m,n):
    buf=io.StringIO()
    with contextlib.redirect_stdout(buf):
        return bisc(A_list,m,n)
t0=time.time()
for trial in range(1500):
    n=random.randint(1,5); m=random.randint(1,min(n,4))
    mode=random.choice(['random','avclass','meshclass','dense','with_empty_only'])
    if mode=='random':
        dens=random.random()
        A=[p for k in range(n+1) for p in ALL[k] if random.random()<dens]
    elif mode=='dense':
        A=[p for k in range(n+1) for p in ALL[k] if random.random()<0.9]
    elif mode=='avclass':
        B=[Perm(random.sample(range(l),l)) for l in [random.randint(1,3) for _ in range(random.randint(1,2))]]
        A=[p for k in range(n+1) for p in ALL[k] if p.avoids(*B)]
    elif mode=='meshclass':
        l=random.randint(1,3); q=Perm(random.sample(range(l),l)); M=MeshPatt.unrank(q, random.getrandbits((l+1)**2)&random.getrandbits((l+1)**2))
        A=[p for k in range(n+1) for p in ALL[k] if p.avoids(M)]
    else:
        A=[Perm(())]+[p for k in range(1,n+1) for p in ALL[k] if random.random()<0.5]
    Aset=set(A)
    try:
        SG=run(list(A),m,n)
    except Exception as e:
        key=('EXC',type(e).__name__, mode, traceback.extract_tb(e.__traceback__)[-1].lineno)
        stats[key]+=1; examples.setdefault(key,(A,m,n,repr(e))); continue
    patts=[MeshPatt(p,sh) for L in SG for p in SG[L] for sh in SG[L][p]]
    ok=True
    # (a) soundness
    for a in A:
        if len(a)<=n and any(a.contains(M) for M in patts): stats[('unsound',mode)]+=1; examples.setdefault(('unsound',mode),(A,m,n,SG,a)); ok=False; break
    # (b) completeness
    for k in range(m+1):
        for p in ALL[k]:
            if p not in Aset and not any(p.contains(M) for M in patts):
                stats[('incomplete',mode)]+=1; examples.setdefault(('incomplete',mode),(A,m,n,SG,p)); ok=False; break
        else: continue
        break
    # (c) irredundant
    for M in patts:
        for c in M.shading:
            M2=MeshPatt(M.pattern, M.shading-{c})
            if any(len(a)<=n and a.contains(M2) for a in A): continue
            if any(len(Q)<len(M2) and M2.contains(Q) for Q in patts): continue
            stats[('redundant',mode)]+=1; examples.setdefault(('redundant',mode),(A,m,n,SG,M,c)); ok=False
    if ok: stats[("ok",mode, "nonempty" if patts else "empty", max([len(M) for M in patts],default=0))]+=1
for k,v in sorted(stats.items(), key=str): print(k,v)
for k,v in examples.items(): print(k, v)
print(time.time()-t0)

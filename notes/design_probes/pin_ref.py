# order-theoretic reference decoder for pin words
def decode(word):
    # xs, ys: lists of point ids in increasing coordinate order; id 0 = origin
    xs=[0]; ys=[0]; last=None; n=0
    for ch in word:
        n+=1
        if ch in '1234':
            right = ch in '14'; up = ch in '12'
            if right: xs.append(n)
            else: xs.insert(0,n)
            if up: ys.append(n)
            else: ys.insert(0,n)
        else:
            if last is None: raise ValueError("direction first")
            if ch in 'UD':
                # x between last pin and all earlier ones
                if xs[-1]==last: xs.insert(len(xs)-1,n)
                elif xs[0]==last: xs.insert(1,n)
                else: raise ValueError("not separable")
                if ch=='U': ys.append(n)
                else: ys.insert(0,n)
            else:
                if ys[-1]==last: ys.insert(len(ys)-1,n)
                elif ys[0]==last: ys.insert(1,n)
                else: raise ValueError("not separable")
                if ch=='R': xs.append(n)
                else: xs.insert(0,n)
        last=n
    xs=[i for i in xs if i!=0]; ys=[i for i in ys if i!=0]
    rank={pid:r for r,pid in enumerate(ys)}
    return tuple(rank[pid] for pid in xs)

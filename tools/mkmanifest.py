#!/usr/bin/env python3
"""Regenerate MANIFEST.json from the table below (keeps the file valid at all times)."""
import json
import os

ROOT = os.path.dirname(os.path.dirname(os.path.abspath(__file__)))

# id -> (technique, level text, level note, design ref)
CHECKS = {
    "C01": (
        "exhaustive small-world enumeration + Hypothesis generated pairs/histories against a definitional reference model (combinations + order-isomorphism)",
        "Every (pattern, permutation) pair below a length bound is enumerated and every entry point compared, as a list, with an independent oracle; above the bound Hypothesis plants occurrences, colours and re-uses memoised pattern objects across targets. Exploration is the right level: the property is universally quantified over an infinite domain, the search code is branchy but has no hidden state beyond the per-pattern memo, so complete small worlds plus generated larger ones reach the off-by-one and memo faults it can have.",
        "Trusted: pv/oracle.py (itertools.combinations + order isomorphism). Bounded: exhaustive |p|<=4,|t|<=6 quick (|p|<=5,|t|<=7 thorough); generated up to |p|<=6,|t|<=12.",
        "DESIGN.md 4/C01",
    ),
}

NOT_YET = {}


def main():
    props = [json.loads(l) for l in open(os.path.join(ROOT, "properties.jsonl"))]
    checks = []
    na = []
    for p in props:
        pid = p["id"]
        if pid in CHECKS:
            tech, text, note, ref = CHECKS[pid]
            checks.append(
                {
                    "property_id": pid,
                    "quick_cmd": f"./check {pid} --tier quick",
                    "thorough_cmd": f"./check {pid} --tier thorough",
                    "evidence_file": f"evidence/{pid}.json",
                    "replay_cmd_template": f"./check {pid} --replay {{path}}",
                    "engine": "pv",
                    "level_claimed": {"category": "exploration", "text": text, "design_ref": ref},
                    "level_note": note,
                    "technique": tech,
                }
            )
        else:
            na.append({"property_id": pid, "reason": NOT_YET.get(pid, "check not built yet (build in progress); will be decided by property-based testing, see DESIGN.md section 4")})
    manifest = {
        "version": 1,
        "setup_cmd": "sh tools/setup.sh",
        "hooks": {
            "guard": "PERMUTA_VERIF",
            "enable": "no source hooks are needed: the repository is pure Python and every check imports /repo's working tree in a fresh interpreter (PERMUTA_VERIF=1 is exported by ./check but read by nothing in /repo)",
            "baseline_off_cmd": "cd /repo && /venv/bin/python -m pytest -ra -q -p no:cacheprovider --timeout=900 --continue-on-collection-errors",
            "source_commits": [],
            "add_only": True,
        },
        "engines": [
            {
                "name": "pv",
                "path": "pv/",
                "serves_properties": [c["property_id"] for c in checks],
                "kind_free_text": "property-based testing: exhaustive small-world enumeration, Hypothesis generators and rule-based state machines, schedule-owning thread harness, atheris targets; independent reference model in pv/oracle.py",
            }
        ],
        "checks": checks,
        "not_applicable": na,
        "notes": "All checks: ./check <id> --tier quick|thorough [--replay file]; exit 0 held / 1 VIOLATION / 2 harness error. Known findings: known_findings.json.",
    }
    with open(os.path.join(ROOT, "MANIFEST.json"), "w") as fh:
        json.dump(manifest, fh, indent=1)
    print("checks:", len(checks), "not_applicable:", len(na))


if __name__ == "__main__":
    main()

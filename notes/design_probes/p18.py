import itertools, time, collections
from ref import *
from pin_ref import decode
from permuta import *
from permuta.permutils.pin_words import PinWords as PW
t0=time.time()
words={n:list(PW.pinwords_of_length(n)) for n in range(0,5)}
p2w=collections.defaultdict(set)
for n,ws in words.items():
    for w in ws: p2w[decode(w)].add(w)
strict=lambda w: PW.is_strict_pinword(w)
bad_strict=[];bad_general=[]; tot=0
for n in range(1,5):
    for w in words[n]:
        pw=decode(w)
        for k in range(1,n+1):
            for sigma in perms(k):
                truth=bool(occ(sigma,pw))
                test=any(PW.pinword_contains(w,u) for u in p2w.get(sigma,()))
                tot+=1
                if truth!=test:
                    (bad_strict if strict(w) else bad_general).append((w,sigma,truth,test))
    print(n, tot, len(bad_strict), len(bad_general), time.time()-t0, flush=True)
print("strict fails", bad_strict[:5])
print("general fails", bad_general[:10])

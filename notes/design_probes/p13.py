from collections import Counter
from permuta import *
def lis(p):
    best=[0]*len(p)
    for i in range(len(p)):
        best[i]=1+max([best[j] for j in range(i) if p[j]<p[i]], default=0)
    return max(best, default=0)
c1=Av.from_string("2143,415263"); c2=Av.from_string("3142")
for f,name in [(lis,'lis'),(lambda p: lis([-v for v in p]),'lds')]:
    print(name, all(Counter(f(p) for p in c1.of_length(i))==Counter(f(p) for p in c2.of_length(i)) for i in range(7)))

"""C14 - pin words decode to their pin permutations and reflect pattern containment."""
import itertools

from hypothesis import strategies as st

from permuta import Perm
from permuta.permutils.pin_words import PinWords as PW

from .. import engine, gen
from .. import oracle as ref
from .. import pin_ref as pin
from ..engine import BAD, KNOWN, OK

META = {
    "level": "exploration",
    "rule": (
        "exhaustive: every pin word up to the tier's length for decoding, quadrants, factors and the three "
        "tables; every (word, permutation) pair with |sigma| <= |w| <= 4 (5 thorough) for containment; every direction word of "
        "length 2-7 for the translations; generated: words of length <= 8 with sigma drawn as a sub-permutation of "
        "perm(w) (truth = contained) or a one-point perturbation of one (near miss), pairs of pin words. Oracle: an "
        "order-theoretic decoder (two linear orders of point ids, no rationals), true containment by the reference "
        "model, and an own matcher for Theorem 3.13 (refmatch = truth is asserted first: a failure there is a "
        "harness error). Non-trivial: |sigma| >= 2 and (truth holds with >= 2 factors, or the case is a near miss). "
        "Distinct = case content."
    ),
    "assumptions": [
        "the grammar of pin words is the one stated in pinwords_of_length's docstring (numeral first; no UU, UD, DU, DD, LL, LR, RL, RR)",
    ],
}


def selftest():
    if pin.decode("3DL2UR") != (3, 5, 1, 2, 0, 4) or pin.decode("14L2UR") != (3, 5, 1, 2, 0, 4) or pin.decode("4R") != (0, 1):
        raise engine.HarnessError("pin decoder self-test (documented examples)")
    if [pin.quadrant("2RU4LULURD4L", i) for i in (2, 3, 6)] != ["1", "4", "2"]:
        raise engine.HarnessError("pin quadrant self-test (documented examples)")
    # refmatch (with the gap condition) equals true containment on a small world
    for n in range(1, 4):
        for w in pin.language(n):
            pw = pin.decode(w)
            for k in range(1, n + 1):
                for sigma in ref.perms(k):
                    truth = ref.contains(pw, sigma)
                    mine = any(pin.occurrences(w, u) for u in pin.words_of_perm(sigma))
                    if truth != mine:
                        raise engine.HarnessError(f"own Theorem 3.13 matcher disagrees with containment on {w} {sigma}")


def check_word(case):
    w = case
    want = pin.decode(w)
    got = PW.pinword_to_perm(w)
    if tuple(got) != want or not isinstance(got, Perm):
        return BAD("pinword_to_perm", {"got": list(got), "want": list(want)})
    for i in range(len(w)):
        q = PW.quadrant(w, i)
        if q != pin.quadrant(w, i):
            return BAD("quadrant", {"index": i, "got": q, "want": pin.quadrant(w, i)})
    fs = PW.factor_pinword(w)
    if "".join(fs) != w or any(f[0] not in pin.QUADS or any(c not in pin.DIRS for c in f[1:]) for f in fs) or fs != pin.factor(w):
        return BAD("factor_pinword", {"got": fs})
    if PW.is_strict_pinword(w) != pin.is_strict(w):
        return BAD("is_strict_pinword", {"got": PW.is_strict_pinword(w)})
    return OK(len(w) >= 3 and any(c in pin.DIRS for c in w), "strict" if pin.is_strict(w) else "general")


def check_long_word(case):
    """Pin words of several hundred letters: decoding is defined for every length (the word is
    decoded cold, and again after its prefixes were decoded)."""
    from ..lib import with_default_recursion_budget

    w = case
    want = pin.decode(w)
    status, got = with_default_recursion_budget(lambda: PW.pinword_to_perm(w))
    if status == "recursion":
        return BAD("pinword_to_perm_recursion_error", {"length": len(w), "word_prefix": w[:40]})
    if tuple(got) != want or not isinstance(got, Perm):
        return BAD("pinword_to_perm_long", {"length": len(w), "word_prefix": w[:40]})
    k = len(w) // 2
    status, got = with_default_recursion_budget(lambda: PW.pinword_to_perm(w[:k]))
    if status == "recursion" or tuple(got) != pin.decode(w[:k]):
        return BAD("pinword_to_perm_long_prefix", {"length": k})
    i = len(w) - 1
    if PW.quadrant(w, i) != pin.quadrant(w, i):
        return BAD("quadrant_long", {"index": i})
    if "".join(PW.factor_pinword(w)) != w or PW.factor_pinword(w) != pin.factor(w):
        return BAD("factor_pinword_long", {})
    return OK(True, "long_word", key=w)


def check_tables(case):
    n = case
    lang = pin.language(n)
    words = list(PW.pinwords_of_length(n))
    if len(words) != len(set(words)) or sorted(words) != sorted(lang):
        extra = sorted(set(words) - set(lang))[:3]
        missing = sorted(set(lang) - set(words))[:3]
        return BAD("pinwords_of_length", {"n": n, "extra": extra, "missing": missing})
    w2p = PW.pinword_to_perm_mapping(n)
    if set(w2p) != set(lang) or any(tuple(w2p[w]) != pin.decode(w) for w in lang):
        return BAD("pinword_to_perm_mapping", {"n": n})
    p2w = PW.perm_to_pinword_mapping(n)
    want = pin.words_of_perm_table(n)
    if {tuple(k): set(v) for k, v in p2w.items() if v} != want:
        return BAD("perm_to_pinword_mapping", {"n": n})
    # inverse of each other
    for w, p in w2p.items():
        if w not in p2w[p]:
            return BAD("tables_not_inverse", {"word": w})
    sp = PW.perm_to_strict_pinword_mapping(n)
    want_sp = {k: {w for w in v if pin.is_strict(w)} for k, v in want.items()}
    if {tuple(k): set(v) for k, v in sp.items()} != want_sp:
        return BAD("perm_to_strict_pinword_mapping", {"n": n})
    strict = list(PW.strict_pinwords_of_length(n))
    if sorted(strict) != sorted(w for w in lang if pin.is_strict(w)):
        return BAD("strict_pinwords_of_length", {"n": n})
    return OK(n >= 2, f"tables{n}", key=f"tables{n}")


def check_translation(case):
    m = case  # a word of M, length >= 2
    sp = PW.m_to_sp(m)
    if sp != pin.m_to_sp(m) or not pin.is_strict(sp) or len(sp) != len(m) - 1:
        return BAD("m_to_sp", {"m": m, "got": sp})
    back = PW.sp_to_m(sp)
    if m not in back or any(PW.m_to_sp(x) != sp for x in back) or any(len(x) != len(m) for x in back):
        return BAD("sp_to_m_not_inverse", {"m": m, "sp": sp, "back": list(back)})
    if len(back) != (2 if len(sp) == 1 else 1) or any(x not in pin.m_language(len(x)) for x in back):
        return BAD("sp_to_m_image", {"sp": sp, "back": list(back)})
    if PW.sp_to_m(m) != (m,):
        return BAD("sp_to_m_on_m_word", {"m": m})
    return OK(len(m) >= 3, "translation")


def check_contain(case):
    w, sigma = case["w"], tuple(case["sigma"])
    pw = pin.decode(w)
    truth = ref.contains(pw, sigma)
    us = sorted(pin.words_of_perm(sigma))
    mine = {u: pin.occurrences(w, u, True) for u in us}
    if truth != any(mine.values()):
        raise engine.HarnessError(f"own Theorem 3.13 matcher disagrees with containment on {w} {sigma}")
    known = None
    lib_any = False
    for u in us:
        got = [tuple(o) for o in PW.pinword_occurrences(w, u)]
        c = PW.pinword_contains(w, u)
        if c != bool(got):
            return BAD("contains_vs_occurrences", {"w": w, "u": u})
        lib_any = lib_any or c
        if sorted(got) != sorted(mine[u]):
            detail = {"w": w, "u": u, "got": sorted(got), "want": mine[u], "perm_of_w": list(pw), "sigma": list(sigma)}
            if sorted(got) == sorted(pin.occurrences(w, u, False)):
                known = known or KNOWN("F8", "pinword_occurrences", detail)
            else:
                return BAD("pinword_occurrences", detail)
        # the strict building block
        for f in pin.factor(u):
            sgot = list(PW.pinword_occurrences_sp(w, f))
            if sgot != pin.strict_occurrences(w, f):
                return BAD("pinword_occurrences_sp", {"w": w, "u": f, "got": sgot, "want": pin.strict_occurrences(w, f)})
            if PW.pinword_contains_sp(w, f) != bool(sgot):
                return BAD("pinword_contains_sp", {"w": w, "u": f})
    if lib_any != truth:
        detail = {"w": w, "sigma": list(sigma), "perm_of_w": list(pw), "got": lib_any, "truth": truth}
        if known is not None:
            return KNOWN("F8", "containment_reflection", detail)
        return BAD("containment_reflection", detail)
    if known is not None:
        return known
    nfac = max((len(pin.factor(u)) for u in us if mine[u]), default=0)
    nt = len(sigma) >= 2 and ((truth and nfac >= 2) or case.get("near_miss", False))
    return OK(nt, "contained" if truth else "not_contained")


def check_strict(case):
    """Strict pin word u inside a (long) pin word w: occurrences may overlap each other and may
    start at numerals or at direction letters (Lemma 3.12).  Oracle: quadrant of the pin at the
    start index, computed by the order-theoretic decoder, plus literal agreement of the letters."""
    w, u = case["w"], case["u"]
    want = pin.strict_occurrences(w, u)
    got = list(PW.pinword_occurrences_sp(w, u))
    if got != want:
        return BAD("pinword_occurrences_sp", {"w": w, "u": u, "got": got, "want": want})
    if PW.pinword_contains_sp(w, u) != bool(want):
        return BAD("pinword_contains_sp", {"w": w, "u": u, "want": bool(want)})
    # a strict pin word is its own single factor: the general test must agree
    gen_got = sorted(tuple(o) if isinstance(o, (tuple, list)) else (o,) for o in PW.pinword_occurrences(w, u))
    if gen_got != [(i,) for i in want]:
        return BAD("pinword_occurrences_strict_u", {"w": w, "u": u, "got": gen_got, "want": want})
    if PW.pinword_contains(w, u) != bool(want):
        return BAD("pinword_contains_strict_u", {"w": w, "u": u, "want": bool(want)})
    overlap = any(b - a < len(u) for a, b in zip(want, want[1:]))
    return OK(len(want) >= 1 and len(u) >= 3, "overlapping_occurrences" if overlap else "occurs" if want else "no_occurrence", key=f"{w}|{u}")


CHECKS = {"long_word": check_long_word, "word": check_word, "tables": check_tables, "translation": check_translation, "contain": check_contain, "strict": check_strict}


# ------------------------------------------------------------------ generators
def shard_words(acc, shard, nshards, max_n):
    i = 0
    for n in range(max_n + 1):
        for w in pin.language(n):
            if i % nshards == shard:
                acc.record("word", check_word, w)
            i += 1
    # the tables go one length further than the word sweep: length 6 is the first with
    # permutations that have no pin word at all
    for n in range(max_n + 2):
        if n % nshards == shard:
            acc.record("tables", check_tables, n)
    for n in range(2, 8):
        for m in pin.m_language(n):
            if i % nshards == shard:
                acc.record("translation", check_translation, m)
            i += 1


def shard_contain(acc, shard, nshards, max_n):
    i = 0
    for n in range(0, max_n + 1):
        for w in pin.language(n):
            if i % nshards == shard:
                for k in range(0, n + 1):  # k = 0: the empty permutation (pin word "") is contained in everything
                    for sigma in ref.perms(k):
                        acc.record("contain", check_contain, {"w": w, "sigma": list(sigma)})
            i += 1


@st.composite
def pin_words(draw, min_len=1, max_len=8):
    n = draw(st.integers(min_len, max_len))
    w = draw(st.sampled_from(pin.QUADS))
    while len(w) < n:
        last = w[-1]
        opts = list(pin.QUADS)
        if last in pin.QUADS:
            opts += list(pin.DIRS) * 2
        elif last in "UD":
            opts += ["L", "R"] * 3
        else:
            opts += ["U", "D"] * 3
        w += draw(st.sampled_from(opts))
    return w


@st.composite
def contain_cases(draw):
    w = draw(pin_words(2, 8))
    pw = pin.decode(w)
    k = draw(st.integers(0, min(5, len(pw))))
    idx = sorted(draw(st.lists(st.integers(0, len(pw) - 1), min_size=k, max_size=k, unique=True)))
    sigma = list(ref.subperm(pw, idx))
    near = draw(st.booleans())
    if near and len(sigma) >= 2:
        # move one point: usually no longer contained
        i = draw(st.integers(0, len(sigma) - 1))
        v = sigma.pop(i)
        j = draw(st.integers(0, len(sigma)))
        sigma.insert(j, v)
    return {"w": w, "sigma": sigma, "near_miss": near}


@st.composite
def strict_cases(draw):
    """w: numeral-led pieces whose direction tails are periodic (ULUL.., RDRD..) so that a tail
    overlaps itself; u: read off w at a random index (occurrence guaranteed), or with another
    numeral (near miss), or free"""
    w = ""
    for _ in range(draw(st.integers(1, 3))):
        a, b = draw(st.sampled_from(["UL", "UR", "DL", "DR", "LU", "LD", "RU", "RD"]))
        tail = (a + b) * 4
        w += draw(st.sampled_from(pin.QUADS)) + tail[: draw(st.integers(0, 7))]
    if draw(st.integers(0, 3)) == 0:
        w = draw(pin_words(4, 12))
    k = draw(st.integers(1, 6))
    starts = [i for i in range(len(w) - k + 1) if all(c in pin.DIRS for c in w[i + 1 : i + k])]
    if starts and draw(st.integers(0, 5)) != 0:
        i = draw(st.sampled_from(starts))
        num = pin.quadrant(w, i) if draw(st.integers(0, 3)) else draw(st.sampled_from(pin.QUADS))
        u = num + w[i + 1 : i + k]
    else:
        u = draw(pin_words(1, 5))
        u = u[0] + "".join(c for c in u[1:] if c in pin.DIRS)
        if not pin.in_language(u):
            u = u[:1]
    return {"w": w, "u": u}


def shard_generated(acc, shard, nshards, n_word, n_contain):
    engine.hyp_run(acc, "strict", check_strict, strict_cases(), n_contain * 4, shard)
    engine.hyp_run(acc, "word", check_word, pin_words(5, 12), n_word, shard)
    engine.hyp_run(acc, "long_word", check_long_word, pin_words(300, 1100), max(2, n_word // 20), shard)
    engine.hyp_run(acc, "contain", check_contain, contain_cases(), n_contain, shard)


def run(acc, tier):
    if tier == "quick":
        engine.pmap(acc, shard_words, extra=(5,))
        engine.pmap(acc, shard_contain, extra=(4,))
        engine.pmap(acc, shard_generated, extra=(60, 40))
    else:
        engine.pmap(acc, shard_words, extra=(6,))
        engine.pmap(acc, shard_contain, extra=(5,))
        engine.pmap(acc, shard_generated, extra=(800, 600))
        engine.fuzz(acc, "contain", CHECKS, 8000, corpus_seeds=[[4, 0, 4, 1, 5, 2, 2, 9, 1]])

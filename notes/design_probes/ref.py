import itertools
def std(seq):
    s = sorted(range(len(seq)), key=lambda i: (seq[i], i))
    r = [0]*len(seq)
    for rank, i in enumerate(s): r[i] = rank
    return tuple(r)
def perms(n): return itertools.permutations(range(n))
def occ(p, t):
    k = len(p)
    return [c for c in itertools.combinations(range(len(t)), k) if std([t[i] for i in c]) == tuple(p)]
def mesh_occ(p, sh, t):
    k = len(p); res = []
    for c in occ(p, t):
        vals = sorted(t[i] for i in c)
        ok = True
        for i, v in enumerate(t):
            if i in c: continue
            x = sum(1 for j in c if j < i)
            y = sum(1 for w in vals if w < v)
            if (x, y) in sh: ok = False; break
        if ok: res.append(c)
    return res

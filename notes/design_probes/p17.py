import itertools, time
from ref import *
from pin_ref import decode
from permuta import *
from permuta.permutils.pin_words import PinWords as PW
t0=time.time()
cnt=0
for n in range(0,6):
    ws=list(PW.pinwords_of_length(n))
    assert len(ws)==len(set(ws))
    for w in ws:
        assert tuple(PW.pinword_to_perm(w))==decode(w),(w,PW.pinword_to_perm(w),decode(w))
        cnt+=1
    # enumerated = all words over alphabet satisfying the grammar
    exp=[w for w in map(''.join, itertools.product('1234ULDR',repeat=n)) if (n==0 or w[0] in '1234') and not any(a in 'UD' and b in 'UD' or a in 'LR' and b in 'LR' for a,b in zip(w,w[1:]))]
    assert sorted(ws)==sorted(exp)
print("decode ok",cnt,time.time()-t0)
# sp_to_m / m_to_sp
M=[w for n in range(2,7) for w in map(''.join,itertools.product('ULDR',repeat=n)) if not any(a in 'UD' and b in 'UD' or a in 'LR' and b in 'LR' for a,b in zip(w,w[1:]))]
for w in M:
    sp=PW.m_to_sp(w); assert PW.is_strict_pinword(sp) and w in PW.sp_to_m(sp),(w,sp)
for n in range(1,6):
    for sp in PW.strict_pinwords_of_length(n):
        for m in PW.sp_to_m(sp): assert PW.m_to_sp(m)==sp,(sp,m)
        assert all(len(m)==n+1 for m in PW.sp_to_m(sp))
print("phi ok")

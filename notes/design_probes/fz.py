#!/venv/bin/python
import sys
sys.path.insert(0,'/tmp/probe/deps'); sys.path.insert(0,'/repo'); sys.path.insert(0,'/tmp/probe')
import atheris
with atheris.instrument_imports(include=["permuta"]):
    import permuta
    from permuta import Perm
from ref import occ, std
def target(data):
    fdp=atheris.FuzzedDataProvider(data)
    k=fdp.ConsumeIntInRange(0,5); n=fdp.ConsumeIntInRange(0,9)
    p=std([fdp.ConsumeIntInRange(0,255) for _ in range(k)])
    t=std([fdp.ConsumeIntInRange(0,255) for _ in range(n)])
    got=list(Perm(p).occurrences_in(Perm(t)))
    exp=occ(p,t)
    if got!=exp: raise RuntimeError(f"C01 {p} {t} {got} {exp}")
atheris.Setup(sys.argv, target)
atheris.Fuzz()

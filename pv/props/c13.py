"""C13 - finiteness, polynomial growth and insertion-encodability verdicts are correct."""
import argparse
import contextlib
import io
import itertools

from hypothesis import strategies as st

from permuta import Av, Basis, Perm
from permuta import cli as pcli
from permuta import permutils

from .. import engine, gen
from ..lib import run_cli
from .. import oracle as ref
from ..engine import BAD, OK

META = {
    "level": "exploration",
    "rule": (
        "generated bases of 1-6 permutations of length 1-5 (random + monotone + members of the ten minimal "
        "non-polynomial classes + near-members), each fed in every container form (list, tuple, set, frozenset, "
        "Basis, generator, one-shot iterator, dict keys), shuffled and with repetitions, under the eight "
        "symmetries; histories of verdict calls over a pool of bases (process-wide memo tables); exhaustive: every "
        "basis of <= 2 permutations of length <= 3 (thorough <= 4). Oracle: the structure theorems with class "
        "membership decided by reference avoidance of the PUBLISHED bases of the ten classes (cross-checked against "
        "split-point definitions in the self-test), plus enumeration consistency (Erdos-Szekeres bound, "
        "non-emptiness, Fibonacci lower bound). Non-trivial: removing one basis element flips a verdict, or the "
        "container is a one-shot iterator. Distinct = case content."
    ),
    "assumptions": [
        "Fibonacci lower bound uses F_1 = F_2 = 1 (sound under either indexing convention of the Fibonacci dichotomy)",
        "enumeration beyond length 6 uses the library's Av (decided by C02), cross-checked against the brute-force model up to length 6 inside each case",
    ],
    "trusted_base": ["Av.count for lengths 7-9 (C02)"],
}

# published bases (0-based) of the ten minimal classes of non-polynomial growth
P_CLASSES = {
    "P++": [(2, 1, 0), (1, 0, 3, 2), (2, 0, 3, 1)],  # inc | inc  = Av(321, 2143, 3142)
    "P+-": [(1, 0, 2), (2, 0, 1)],  # inc | dec  = Av(213, 312)
    "P-+": [(0, 2, 1), (1, 2, 0)],  # dec | inc  = Av(132, 231)
    "P--": [(0, 1, 2), (1, 3, 0, 2), (2, 3, 0, 1)],  # dec | dec  = Av(123, 2413, 3412)
}
L2 = [(1, 2, 0), (2, 0, 1), (2, 1, 0)]  # sums of 1 and 21 = Av(231, 312, 321)
L2R = [ref.sym_perm("r", b) for b in L2]
V_CLASSES = {"V" + k[1:]: [ref.inverse(b) for b in v] for k, v in P_CLASSES.items()}
TEN = dict(P_CLASSES, **V_CLASSES, L2=L2, L2R=L2R)


def in_class(p, name):
    return ref.avoids_all(p, TEN[name])


def _split_def(p, first, second):
    mono = lambda s, up: all((a < b) == up for a, b in zip(s, s[1:]))  # noqa: E731
    return any(mono(p[:k], first) and mono(p[k:], second) for k in range(len(p) + 1))


def selftest():
    signs = {"+": True, "-": False}
    for p in ref.perms_upto(6):
        for name in P_CLASSES:
            want = _split_def(p, signs[name[1]], signs[name[2]])
            if in_class(p, name) != want:
                raise engine.HarnessError(f"published basis of {name} disagrees with its split-point definition on {p}")
            if in_class(p, "V" + name[1:]) != _split_def(ref.inverse(p), signs[name[1]], signs[name[2]]):
                raise engine.HarnessError(f"V class {name} self-test")
        # L2: direct sum of blocks 1 and 21
        comps, i, ok = [], 0, True
        while i < len(p):
            if p[i] == i:
                i += 1
            elif i + 1 < len(p) and p[i] == i + 1 and p[i + 1] == i:
                i += 2
            else:
                ok = False
                break
        if in_class(p, "L2") != ok:
            raise engine.HarnessError("published basis of L2 disagrees with its definition")
    del comps


# ------------------------------------------------------------------ oracle verdicts
def o_finite(perms):
    return any(list(p) == sorted(p) for p in perms) and any(list(p) == sorted(p, reverse=True) for p in perms)


def o_types(perms):
    return {name for name in TEN if any(in_class(p, name) for p in perms)}


def o_polynomial(perms):
    return len(o_types(perms)) == 10


def o_rightmost(perms):
    return all(any(in_class(p, name) for p in perms) for name in P_CLASSES)


def o_maximum(perms):
    return all(any(in_class(p, name) for p in perms) for name in V_CLASSES)


def _fib(n):
    a, b = 1, 1
    for _ in range(n - 1):
        a, b = b, a + b
    return a


CONTAINERS = ("list", "tuple", "set", "frozenset", "basis", "generator", "iter", "dictkeys", "reversed")


def _container(kind, P):
    if kind == "list":
        return list(P)
    if kind == "tuple":
        return tuple(P)
    if kind == "set":
        return set(P)
    if kind == "frozenset":
        return frozenset(P)
    if kind == "basis":
        return Basis(*P)
    if kind == "generator":
        return (x for x in P)
    if kind == "iter":
        return iter(list(P))
    if kind == "dictkeys":
        return {x: None for x in P}.keys()
    if kind == "reversed":
        return reversed(list(P))
    raise engine.HarnessError(kind)


FUNCS = {
    "is_finite": (permutils.is_finite, o_finite),
    "is_polynomial": (permutils.is_polynomial, o_polynomial),
    "is_non_polynomial": (permutils.is_non_polynomial, lambda ps: not o_polynomial(ps)),
    "is_insertion_encodable_rightmost": (permutils.is_insertion_encodable_rightmost, o_rightmost),
    "is_insertion_encodable_maximum": (permutils.is_insertion_encodable_maximum, o_maximum),
    "is_insertion_encodable": (permutils.is_insertion_encodable, lambda ps: o_rightmost(ps) or o_maximum(ps)),
}


def _cli(fn, arg):
    buf = io.StringIO()
    with contextlib.redirect_stdout(buf):
        fn(argparse.Namespace(basis=arg))
    return buf.getvalue()


def check_basis(case):
    perms = [tuple(p) for p in case["perms"]]
    order = case.get("order", list(range(len(perms))))
    seq = [perms[i % len(perms)] for i in order]  # shuffled, possibly with repetitions
    enum = case.get("enumerate", False)
    for g in ref.SYMS if case.get("symmetries", True) else ("id",):
        img = [ref.sym_perm(g, p) for p in seq]
        P = [Perm(p) for p in img]
        for fname, (fn, oracle) in FUNCS.items():
            want = oracle(img)
            for kind in CONTAINERS:
                got = fn(_container(kind, P))
                if got != want or not isinstance(got, bool):
                    return BAD(fname, {"symmetry": g, "container": kind, "basis": [list(p) for p in img], "got": got, "want": want})
        # wrappers on the class object and the command line tool
        if all(len(p) >= 1 for p in img):
            av = Av(P)
            for got, want, name in (
                (av.is_finite(), o_finite(img), "Av.is_finite"),
                (av.is_polynomial(), o_polynomial(img), "Av.is_polynomial"),
                (av.is_insertion_encodable(), o_rightmost(img) or o_maximum(img), "Av.is_insertion_encodable"),
            ):
                if got != want:
                    return BAD(name.replace(".", "_"), {"symmetry": g, "basis": [list(p) for p in img], "got": got, "want": want})
            if g in ("id", "rot") and all(len(p) <= 9 for p in img):
                arg = "_".join("".join(map(str, p)) for p in img)
                out = run_cli(["poly", arg])
                if ("is polynomial" in out) != o_polynomial(img) or ("is not polynomial" in out) == o_polynomial(img):
                    return BAD("cli_poly", {"arg": arg, "out": out})
                out = run_cli(["insenc", arg])
                r, m = o_rightmost(img), o_maximum(img)
                if ("regular rightmost insertion encoding" in out) != r or ("regular topmost insertion encoding" in out) != m or ("does not have a regular insertion encoding" in out) != (not r and not m):
                    return BAD("cli_insenc", {"arg": arg, "out": out, "rightmost": r, "topmost": m})
    if enum and all(1 <= len(p) <= 5 for p in perms):
        bad = _enumeration_consistency(perms, case.get("nmax", 8))
        if bad:
            return bad
    # non-triviality: some verdict flips when one element is removed
    uniq = sorted(set(perms))
    flips = False
    for fname, (_, oracle) in FUNCS.items():
        full = oracle(uniq)
        if full and any(not oracle([q for q in uniq if q != p]) for p in uniq):
            flips = True
    labels = [k for k, v in (("finite", o_finite(perms)), ("polynomial", o_polynomial(perms)), ("rightmost", o_rightmost(perms)), ("topmost", o_maximum(perms))) if v]
    return OK(flips, *(labels or ["none"]))


def _enumeration_consistency(perms, nmax):
    av = Av([Perm(p) for p in perms])
    counts = []
    for n in range(nmax + 1):
        c = av.count(n)
        if n <= 6 and c != len(ref.av(perms, n)):
            raise engine.HarnessError("Av.count disagrees with the brute-force model (C02's concern); cannot use it as trusted base")
        counts.append(c)
    fin, poly = permutils.is_finite([Perm(p) for p in perms]), permutils.is_polynomial([Perm(p) for p in perms])
    if fin:
        a = min(len(p) for p in perms if list(p) == sorted(p))
        b = min(len(p) for p in perms if list(p) == sorted(p, reverse=True))
        bound = (a - 1) * (b - 1)
        for n in range(bound + 1, nmax + 1):
            if counts[n] != 0:
                return BAD("finite_but_nonempty_beyond_erdos_szekeres", {"basis": [list(p) for p in perms], "n": n, "count": counts[n]})
    else:
        for n in range(nmax + 1):
            if counts[n] == 0:
                return BAD("infinite_but_empty_level", {"basis": [list(p) for p in perms], "n": n})
    if not poly:
        for n in range(1, nmax + 1):
            if counts[n] < _fib(n):
                return BAD("non_polynomial_below_fibonacci", {"basis": [list(p) for p in perms], "n": n, "count": counts[n], "fib": _fib(n)})
    if fin and not poly:
        return BAD("finite_but_not_polynomial", {"basis": [list(p) for p in perms]})
    return None


def check_history(case):
    """case: {"pool": [[perm...]...], "ops": [[pool idx, function name, container kind, symmetry], ...]}"""
    pool = [[tuple(p) for p in b] for b in case["pool"]]
    for step, (idx, fname, kind, g) in enumerate(case["ops"]):
        perms = [ref.sym_perm(g, p) for p in pool[idx % len(pool)]]
        fn, oracle = FUNCS[fname]
        got = fn(_container(kind, [Perm(p) for p in perms]))
        want = oracle(perms)
        if got != want:
            return BAD("history_" + fname, {"step": step, "basis": [list(p) for p in perms], "container": kind, "got": got, "want": want})
    return OK(len(case["ops"]) >= 4, "history")


def check_long_memo(case):
    """A long basis element L (9-11 points) evaluated first as the element that completes a
    basis, then in bases where a class comes from L alone: the per-permutation memo must hold
    the full set of classes of L, whatever was already known when L was first seen."""
    L = tuple(case["L"])
    shorts = [tuple(p) for p in case["shorts"]]
    subsets = [[shorts[i] for i in range(len(shorts)) if m >> i & 1] for m in case["masks"]]
    # L always comes last (so that it is first evaluated with classes already known); the
    # L-first order is only used at the very end, once every subset has been asked
    sequence = [sub + [L] for sub in subsets] + [[L] + sub for sub in subsets[:4]]
    for step, order in enumerate(sequence):
        if True:
            for fname in ("is_insertion_encodable_rightmost", "is_insertion_encodable_maximum", "is_insertion_encodable", "is_polynomial"):
                fn, oracle = FUNCS[fname]
                got = fn([Perm(p) for p in order])
                want = oracle(order)
                if got != want:
                    return BAD("long_memo_" + fname, {"step": step, "basis": [list(p) for p in order], "got": got, "want": want})
    types_of_L = [name for name in TEN if in_class(L, name)]
    return OK(len(types_of_L) >= 2, f"long_memo_types{min(len(types_of_L), 4)}")


def _trace_files():
    from permuta.permutils import finite, insertion_encodable, polynomial

    return {finite.__file__, insertion_encodable.__file__, polynomial.__file__}


LINE_BUDGET = 2000000


def check_disturbed(case):
    """'Not on earlier calls': an earlier call that was aborted part-way by an asynchronous
    exception (at a generated line of the three verdict modules) is an earlier call, and so is one
    that is still running in another thread.  Afterwards / meanwhile every verdict equals the
    structure theorem's.  case: {"mode": "abort", "first": [fname, basis], "k": int, "then": [[fname, basis]..]}
    or {"mode": "threads", "calls": [[fname, basis]..], "choices": [..]}"""
    from .. import disturb

    files = _trace_files()
    from permuta.permutils import finite, insertion_encodable, polynomial

    disturb.reset_memos([finite, insertion_encodable, polynomial])

    def lib_call(fname, basis):
        return lambda: FUNCS[fname][0]([Perm(p) for p in basis])

    def want(fname, basis):
        return FUNCS[fname][1]([tuple(p) for p in basis])

    if case["mode"] == "abort":
        fname, basis = case["first"]
        k = case["k"]
        if "kfrac" in case:
            # abort point as a fraction of the undisturbed call's traced lines (dry run, then reset)
            _, total = disturb.count_lines(lib_call(fname, basis), files)
            disturb.reset_memos([finite, insertion_encodable, polynomial])
            k = 1 + int(case["kfrac"] * total) % max(total, 1)
        status, val, lines = disturb.abort_at(lib_call(fname, basis), files, k)
        if status == "done" and val != want(fname, basis):
            return BAD("undisturbed_" + fname, {"basis": basis, "got": val})
        for f2, b2 in case["then"]:
            st2, got = disturb.bounded(lib_call(f2, b2), files, LINE_BUDGET)
            if st2 == "budget":
                return BAD("no_termination_after_aborted_call", {"aborted": [fname, basis, k], "call": [f2, b2]})
            if got != want(f2, b2):
                return BAD("wrong_after_aborted_call", {"aborted": [fname, basis, k], "call": [f2, b2], "got": got, "want": want(f2, b2)})
        return OK(status == "aborted" and lines >= 3, "abort_mid_call" if status == "aborted" else "abort_point_beyond_call")
    calls = case["calls"]
    s, stalled = disturb.interleave([lib_call(f, b) for f, b in calls], files, case["choices"], max_steps=LINE_BUDGET)
    if stalled:
        raise engine.HarnessError("C13 disturbed: scheduler stalled")
    if s.overrun:
        return BAD("no_termination_under_interleaving", {"calls": calls})
    for i, ((f, b), (status, got)) in enumerate(zip(calls, s.results)):
        if status == "exc":
            if not engine.is_lib_exception(s.exceptions[i]):
                raise engine.HarnessError(f"C13 disturbed: harness exception {got}")
            return BAD("exception_under_interleaving", {"call": [f, b], "exc": got, "switches": s.switches})
        if status != "ok" or got != want(f, b):
            return BAD("wrong_under_interleaving", {"call": [f, b], "got": got, "want": want(f, b), "switches": s.switches})
    return OK(s.switches >= 2, "interleaved", key=engine.jdump(calls) + "|" + str(hash(tuple(s.trace))))


CHECKS = {"basis": check_basis, "history": check_history, "long_memo": check_long_memo, "disturbed": check_disturbed}


# ------------------------------------------------------------------ generators
_MEMBERS = None


def members():
    """short members of each of the ten classes, by class"""
    global _MEMBERS
    if _MEMBERS is None:
        _MEMBERS = {name: [list(p) for p in ref.perms_upto(5, 2) if in_class(p, name)] for name in TEN}
    return _MEMBERS


@st.composite
def structured_perm(draw):
    mode = draw(st.sampled_from(["random", "member", "member", "monotone", "near", "long"]))
    if mode == "long":
        # longer basis elements (verdicts by avoidance of the published bases stay cheap):
        # juxtapositions of two monotone runs and sums of 1 / 21 blocks of length 6-9, or random
        n = draw(st.integers(6, 9))
        kind = draw(st.sampled_from(["juxt", "l2", "random"]))
        if kind == "random":
            return list(draw(gen.perm_of(n)))
        if kind == "l2":
            out, i = [], 0
            while i < n:
                if i + 1 < n and draw(st.booleans()):
                    out += [i + 1, i]
                    i += 2
                else:
                    out.append(i)
                    i += 1
            p = tuple(out)
        else:
            k = draw(st.integers(1, n - 1))
            left = sorted(draw(st.lists(st.integers(0, n - 1), min_size=k, max_size=k, unique=True)), reverse=draw(st.booleans()))
            right = sorted(set(range(n)) - set(left), reverse=draw(st.booleans()))
            p = tuple(left + right)
        return list(ref.sym_perm(draw(st.sampled_from(ref.SYMS)), p))
    if mode == "random":
        return list(draw(gen.perms(1, 5)))
    if mode == "monotone":
        n = draw(st.integers(1, 5))
        return list(range(n)) if draw(st.booleans()) else list(range(n - 1, -1, -1))
    name = draw(st.sampled_from(sorted(TEN)))
    p = draw(st.sampled_from(members()[name]))
    if mode == "near" and len(p) < 5:
        # one inserted point: usually leaves the class
        v, i = draw(st.integers(0, len(p))), draw(st.integers(0, len(p)))
        q = [w + 1 if w >= v else w for w in p]
        q.insert(i, v)
        return q
    return list(p)


@st.composite
def basis_cases(draw, enum_share=4, nmax=7):
    perms = draw(st.lists(structured_perm(), min_size=1, max_size=6))
    order = draw(st.lists(st.integers(0, 11), min_size=len(perms), max_size=len(perms) + 2))
    # make sure every element appears at least once
    order = list(range(len(perms))) + order
    order = draw(st.permutations(order))
    return {"perms": perms, "order": list(order), "enumerate": draw(st.integers(0, enum_share - 1)) == 0, "nmax": nmax}


@st.composite
def history_cases(draw):
    pool = draw(st.lists(st.lists(structured_perm(), min_size=1, max_size=4), min_size=1, max_size=4))
    ops = draw(
        st.lists(
            st.tuples(st.integers(0, 3), st.sampled_from(sorted(FUNCS)), st.sampled_from(CONTAINERS), st.sampled_from(ref.SYMS)),
            min_size=2,
            max_size=14,
        )
    )
    return {"pool": pool, "ops": [list(o) for o in ops]}


@st.composite
def long_memo_cases(draw):
    n = draw(st.integers(9, 11))
    kind = draw(st.sampled_from(["juxt", "juxt", "l2", "monotone_plus"]))
    if kind == "l2":
        out, i = [], 0
        while i < n:
            if i + 1 < n and draw(st.booleans()):
                out += [i + 1, i]
                i += 2
            else:
                out.append(i)
                i += 1
        p = tuple(out)
    elif kind == "monotone_plus":
        base = list(range(n - 2)) if draw(st.booleans()) else list(range(n - 3, -1, -1))
        p = ref.std(tuple(base + [draw(st.integers(-1, n)) + 0.5, draw(st.integers(-1, n)) + 0.25]))
    else:
        k = draw(st.integers(1, n - 1))
        left = sorted(draw(st.lists(st.integers(0, n - 1), min_size=k, max_size=k, unique=True)), reverse=draw(st.booleans()))
        right = sorted(set(range(n)) - set(left), reverse=draw(st.booleans()))
        p = tuple(left + right)
    L = list(ref.sym_perm(draw(st.sampled_from(ref.SYMS)), p))
    # short companions lying in exactly one of the four P classes (resp. V classes): L is first
    # seen next to all of them (everything already known), afterwards next to every proper subset,
    # so that any class of L dropped at its first evaluation is needed from L alone later
    singles = []
    for group in (sorted(P_CLASSES), sorted(V_CLASSES)):
        for name in group:
            cands = [p for p in members()[name] if sum(1 for other in group if tuple(p) in map(tuple, members()[other])) == 1]
            singles.append(list(draw(st.sampled_from(cands))))
    by_size = sorted(range(15), key=lambda m: -bin(m).count("1"))  # the 3-subsets first, the empty set last
    masks = [m | 0xF0 for m in by_size] + [0x0F | (m << 4) for m in by_size] + [0]
    return {"L": L, "shorts": singles, "masks": masks}


@st.composite
def disturbed_cases(draw):
    """fresh long elements (the memos are per permutation and process-wide: a new long element has
    not been seen by this process) shared between the disturbed call and the later / parallel ones"""
    longs = [draw(long_memo_cases())["L"] for _ in range(draw(st.integers(1, 2)))]
    # companions: one short member for every class the long elements are not in (so that the
    # verdicts are positive exactly when the long elements' classes are all known), optional
    # members of the other classes, and free extras
    have = {name for name in TEN for L in longs if in_class(tuple(L), name)}
    needed = [list(draw(st.sampled_from(members()[name]))) for name in sorted(TEN) if name not in have]
    optional = [list(draw(st.sampled_from(members()[name]))) for name in sorted(have) if draw(st.integers(0, 3)) == 0]
    shorts = optional + draw(st.lists(structured_perm(), min_size=0, max_size=1))
    # the memo tables are per family of verdicts: disturb and ask within one family
    fn = st.sampled_from(draw(st.sampled_from([["is_polynomial", "is_non_polynomial"], ["is_insertion_encodable_rightmost", "is_insertion_encodable_maximum", "is_insertion_encodable"], sorted(FUNCS)])))

    def basis():
        keep_n = [p for p in needed if draw(st.integers(0, 7)) != 0]
        keep_s = [p for p in shorts if draw(st.booleans())]
        return longs + keep_n + keep_s

    if draw(st.booleans()):
        return {"mode": "abort", "first": [draw(fn), basis()], "k": 0, "kfrac": draw(st.floats(0, 0.999)), "then": [[draw(fn), basis()] for _ in range(draw(st.integers(1, 3)))]}
    calls = [[draw(fn), basis()] for _ in range(draw(st.integers(2, 3)))]
    choices = []
    for _ in range(draw(st.integers(2, 40))):
        choices.extend([draw(st.integers(0, 2))] * draw(st.integers(1, 60)))
    return {"mode": "threads", "calls": calls, "choices": choices}


def shard_exhaustive(acc, shard, nshards, max_len, max_size):
    pats = [list(p) for p in ref.perms_upto(max_len, 1)]
    i = 0
    for size in range(1, max_size + 1):
        for combo in itertools.combinations(pats, size):
            if i % nshards == shard:
                acc.record("basis", check_basis, {"perms": list(combo), "enumerate": True, "nmax": 7, "symmetries": False})
            i += 1


def check_light(case):
    """The six verdict functions alone (no containers, symmetries or enumeration) on a basis
    given as a plain list: sweeps every pair of permutations up to length 5 and every triple
    up to length 4."""
    perms = [tuple(p) for p in case]
    for fname, (fn, oracle) in FUNCS.items():
        got = fn([Perm(p) for p in perms])
        want = oracle(perms)
        if got != want:
            return BAD("light_" + fname, {"basis": [list(p) for p in perms], "got": got, "want": want})
    return OK(any(o(perms) for _, o in FUNCS.values()), "light", key="light" + str(perms))


CHECKS["light"] = check_light


_COMPANIONS = None


def companions():
    """for each of the ten classes X: short permutations covering the nine other classes, none
    of them in X; and likewise within the four rightmost / the four topmost classes"""
    global _COMPANIONS
    if _COMPANIONS is None:
        pool = [p for p in ref.perms_upto(5, 2)]
        res = {}
        for group_name, group in (("poly", sorted(TEN)), ("right", sorted(P_CLASSES)), ("top", sorted(V_CLASSES))):
            for X in group:
                comp = []
                for Y in group:
                    if Y == X:
                        continue
                    cands = [q for q in pool if in_class(q, Y) and not in_class(q, X)]
                    if not cands:
                        raise engine.HarnessError(f"no companion in {Y} outside {X}")
                    comp.append(cands[0])
                res[(group_name, X)] = comp
        _COMPANIONS = res
    return _COMPANIONS


def check_membership(case):
    """Membership of one permutation in each of the ten minimal classes (and each of the four
    rightmost / topmost juxtaposition classes), read off the public verdicts: with companions
    covering every other class and none of them in X, the verdict is positive iff p is in X."""
    p = tuple(case)
    for (group, X), comp in companions().items():
        basis = [Perm(q) for q in comp] + [Perm(p)]
        want = in_class(p, X)
        fn = {"poly": permutils.is_polynomial, "right": permutils.is_insertion_encodable_rightmost, "top": permutils.is_insertion_encodable_maximum}[group]
        got = fn(basis)
        if got != want:
            return BAD("membership_" + group, {"class": X, "perm": list(p), "companions": [list(q) for q in comp], "got": got, "want": want})
    return OK(any(in_class(p, X) for X in TEN), "membership", key="mem" + str(p))


CHECKS["membership"] = check_membership


def shard_membership(acc, shard, nshards, max_len):
    for i, p in enumerate(ref.perms_upto(max_len, 1)):
        if i % nshards == shard:
            acc.record("membership", check_membership, list(p))


def shard_light(acc, shard, nshards, pair_len, triple_len):
    i = 0
    pats = [list(p) for p in ref.perms_upto(pair_len, 1)]
    for combo in itertools.combinations(pats, 2):
        if i % nshards == shard:
            acc.record("light", check_light, list(combo))
        i += 1
    pats = [list(p) for p in ref.perms_upto(triple_len, 2)]
    for combo in itertools.combinations(pats, 3):
        if i % nshards == shard:
            acc.record("light", check_light, list(combo))
        i += 1


def shard_generated(acc, shard, nshards, n_basis, n_hist, nmax):
    engine.hyp_run(acc, "basis", check_basis, basis_cases(4 if nmax <= 7 else 12, nmax), n_basis, shard)
    engine.hyp_run(acc, "history", check_history, history_cases(), n_hist, shard)
    engine.hyp_run(acc, "long_memo", check_long_memo, long_memo_cases(), max(10, n_hist // 4), shard)
    engine.hyp_run(acc, "disturbed", check_disturbed, disturbed_cases(), max(30, n_hist), shard)


# coverage-guided variants of the structured generators (thorough tier, pv/fuzz/target.py hyp:<name>)
FUZZ = {"history": ("history", history_cases)}


def run(acc, tier):
    engine.pmap(acc, shard_membership, extra=((7,) if tier == "quick" else (8,)))
    engine.pmap(acc, shard_light, extra=((5, 4) if tier == "quick" else (6, 4)))
    if tier == "quick":
        engine.pmap(acc, shard_exhaustive, extra=(3, 2))
        engine.pmap(acc, shard_generated, extra=(60, 80, 7))
    else:
        engine.pmap(acc, shard_exhaustive, extra=(4, 2))
        engine.pmap(acc, shard_generated, extra=(3000, 4000, 8))
        engine.fuzz(acc, "hyp:history", CHECKS, 15000, max_len=4096)

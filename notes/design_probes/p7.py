import random, itertools
from ref import *
from permuta import *
random.seed(3)
def brute(ps, n):
    return [t for t in perms(n) if all(not Perm(t).contains(p) for p in ps)]
cnt=0
for trial in range(300):
    k = random.randint(1,3)
    ps = [Perm(random.sample(range(l),l)) for l in [random.randint(1,5) for _ in range(k)]]
    if random.random()<0.5: Av.clear_cache()
    A = Av(ps)
    iters=[]
    for step in range(8):
        op = random.choice(['count','of','in','upto','first','iter','clear','other'])
        n = random.randint(0,7)
        if op=='count': assert A.count(n)==len(brute(ps,n)), (ps,n)
        elif op=='of': assert sorted(A.of_length(n))==sorted(map(Perm,brute(ps,n))) , (ps,n)
        elif op=='in':
            t = Perm(random.sample(range(n),n)); assert (t in A)==(tuple(t) in set(brute(ps,n))), (ps,t)
        elif op=='upto':
            n=min(n,5); got=list(A.up_to_length(n)); exp=[Perm(t) for m in range(n+1) for t in brute(ps,m)]
            assert sorted(got)==sorted(exp) and len(got)==len(set(got))
        elif op=='first':
            c=random.randint(0,30); got=list(A.first(c)); exp=[Perm(t) for m in range(7) for t in brute(ps,m)][:c]
            assert len(got)==len(set(got)) and set(g for g in got if len(g)<7) <= set(Perm(t) for m in range(7) for t in brute(ps,m)) , (ps,c)
            assert [len(g) for g in got]==[len(e) for e in exp][:len(got)] and len(got)==min(c,len(exp)) or len(exp)<c, (ps,c,got,exp)
        elif op=='iter': iters.append((n, iter(A.of_length(n)), []))
        elif op=='clear': Av.clear_cache()
        elif op=='other': Av([Perm(random.sample(range(3),3))]).count(5)
        for (m,it,acc) in iters:
            x = next(it, None)
            if x is not None: acc.append(x)
        cnt+=1
    for (m,it,acc) in iters:
        acc.extend(it); assert sorted(acc)==sorted(map(Perm,brute(ps,m))), (ps,m)
print('C02 hist ok', cnt)

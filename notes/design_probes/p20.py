import itertools, time, collections, sys
from ref import *
from pin_ref import decode
from permuta.permutils.pin_words import PinWords as PW
DIRS="ULDR"
def occs_fixed(word,u_word):
    fac=PW.factor_pinword(u_word)
    def rec(i,j,res):
        if j==len(fac): yield tuple(res); return
        if i>=len(word): return
        for o in PW.pinword_occurrences_sp(word,fac[j],i):
            if word[o] in DIRS and o==i: continue
            res.append(o); yield from rec(o+len(fac[j]),j+1,res); res.pop()
    return rec(0,0,[])
def contains_fixed(w,u): return next(occs_fixed(w,u),None) is not None
N=int(sys.argv[1])
words={n:list(PW.pinwords_of_length(n)) for n in range(0,N+1)}
p2w=collections.defaultdict(set)
for n,ws in words.items():
    for w in ws: p2w[decode(w)].add(w)
bad_s=[];bad_g=[];tot=0;t0=time.time()
for n in range(1,N+1):
    for w in words[n]:
        if n==N and not PW.is_strict_pinword(w) and N>4: continue
        pw=decode(w)
        for k in range(1,n+1):
            for sigma in perms(k):
                truth=bool(occ(sigma,pw))
                test=any(contains_fixed(w,u) for u in p2w.get(sigma,()))
                tot+=1
                if truth!=test: (bad_s if PW.is_strict_pinword(w) else bad_g).append((w,sigma,truth,test))
    print(n,tot,len(bad_s),len(bad_g),time.time()-t0,flush=True)
print(bad_s[:8]); print(bad_g[:8])

"""./check <Cxx> [--tier quick|thorough] [--replay FILE]"""
import argparse
import importlib
import json
import os
import sys
import time
import traceback

sys.path.insert(0, os.environ.get("PV_ROOT") or os.path.dirname(os.path.dirname(os.path.abspath(__file__))))

from pv import engine  # noqa: E402


def main():
    ap = argparse.ArgumentParser()
    ap.add_argument("prop")
    ap.add_argument("--tier", default=os.environ.get("VERIF_TIER") or "quick", choices=["quick", "thorough"])
    ap.add_argument("--replay")
    args = ap.parse_args()
    prop = args.prop.upper()
    if args.replay:
        args.replay = os.path.abspath(args.replay)  # before bootstrap changes the working directory
    t0 = time.time()
    try:
        engine.bootstrap()
        sys.setrecursionlimit(10000)
        mod = importlib.import_module(f"pv.props.{prop.lower()}")
        if hasattr(mod, "selftest"):
            mod.selftest()
        if args.replay:
            return replay(mod, prop, args.replay)
        acc = engine.Acc(prop)
        if args.tier == "thorough" and "PV_STAGE_TIMEOUT" not in os.environ:
            engine.STAGE_TIMEOUT = 8 * 3600.0
        mod.run(acc, args.tier)
        meta = mod.META
        return engine.finish(
            acc,
            args.tier,
            meta.get("level", "exploration"),
            meta["rule"],
            t0,
            assumptions=meta.get("assumptions", ()),
            extra_cov=meta.get("extra_cov"),
            exhaustive=meta.get("exhaustive", False),
            trusted_base=meta.get("trusted_base", ()),
            checks=getattr(mod, "CHECKS", None),
            no_shrink=meta.get("no_shrink", ()),  # checks whose single evaluation is too slow to re-run many times
        )
    except engine.HarnessError as exc:
        print(f"HARNESS-ERROR property={prop}: {exc}", file=sys.stderr)
        return 2
    except Exception:  # pylint: disable=broad-except
        print(f"HARNESS-ERROR property={prop}: unexpected exception", file=sys.stderr)
        traceback.print_exc()
        return 2


def replay(mod, prop, path):
    with open(path) as fh:
        payload = json.load(fh)
    check = payload["check"]
    fn = mod.CHECKS[check]
    out = engine.Acc(prop).record(check, fn, payload["case"])
    if out.status == "bad" or (out.status == "known" and out.finding not in engine.open_findings(prop)):
        print(f"VIOLATION property={prop} replay={os.path.abspath(path)}")
        print(f"  check={check} kind={out.kind} detail={str(out.detail)[:600]}")
        return 1
    if out.status == "known":
        f = engine.open_findings(prop)[out.finding]
        print(f"KNOWN-FINDING: property={prop} {out.finding} {f['what']}")
        return 0
    print(f"[{prop}] replay of {path}: property holds on this case")
    return 0


if __name__ == "__main__":
    sys.exit(main())

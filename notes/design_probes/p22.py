import itertools, time, random
from ref import *
from permuta import *
from permuta.permutils.pin_words import PinWords as PW
random.seed(11)
t0=time.time()
def simples_counts(B, N):
    A=Av(Basis(*B))
    return [sum(1 for p in A.of_length(n) if p.is_simple()) for n in range(N+1)]
res=[]
for trial in range(60):
    k=random.randint(1,3)
    B=[Perm(random.sample(range(l),l)) for l in [random.choice([3,4,4,5]) for _ in range(k)]]
    v=PW.has_finite_simples(B)
    v2=Av(Basis(*B)).has_finitely_many_simples()
    sc=simples_counts(B,9)
    res.append((B,v,v2,sc))
    flag=""
    if not v2 and any(sc[n]==0 and sc[n+1]==0 for n in range(4,9)): flag="<<< INF but simples die"
    if v!=v2: flag+=" <<< v!=v2"
    print([str(b) for b in B], v, v2, sc[4:], flag, flush=True)
print(time.time()-t0)

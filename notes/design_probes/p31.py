import itertools
from ref import *
def is_simple(t):
    n=len(t)
    for i in range(n):
        lo=hi=t[i]
        for j in range(i+1,n):
            lo=min(lo,t[j]); hi=max(hi,t[j])
            if hi-lo==j-i and (j-i+1)<n: return False
    return True
def wedge(k):  # ∧ : 1 3 5 .. 2k-1 | 2k .. 4 2  (0-based values)
    return tuple(range(0,2*k,2))+tuple(range(2*k-1,0,-2))
def ins(t,pos,val):
    return tuple(v+(v>=val) for v in t[:pos])+(val,)+tuple(v+(v>=val) for v in t[pos:])
def contains(t,p): return bool(occ(p,t))
types={}
for k in (3,4,5):
    W=wedge(k); n=2*k
    for pos in range(n+1):
        for val in range(n+1):
            t=ins(W,pos,val)
            if is_simple(t):
                # normalise location: pos in {0,1,..} from left or from right or apex
                def norm(x,n,k):
                    if x<=2: return ('L',x)
                    if n-x<=2: return ('R',n-x)
                    if abs(x-k)<=1: return ('M',x-k)
                    return ('?',x)
                key=(norm(pos,n,k),norm(val,n,n//2))
                types.setdefault(key,{})[k]=t
for key,d in sorted(types.items()):
    if len(d)==3:
        chain=all(contains(d[k+1],d[k]) for k in (3,4))
        print(key, d[3], chain)

import itertools, random
from ref import *
from permuta import *
random.seed(8)
ALLn={n:[Perm(t) for t in perms(n)] for n in range(8)}
def isperm(p): return sorted(p)==list(range(len(p)))
for n in range(0,7):
    for P in ALLn[n]:
        # intervals
        exp=[[] for _ in range(n)]
        for i in range(n):
            for L in range(2,n-i+1):
                if L==n: continue
                seg=P[i:i+L]
                if max(seg)-min(seg)==L-1: exp[L].append(i)
        assert P.block_decomposition()==exp, P
        assert P.is_simple()==(all(not e for e in exp)), P
        sd=P.sum_decomposition()
        if n: assert Perm(()).direct_sum(*sd)==P and all(not c.is_sum_decomposable() and len(c)>0 for c in sd), (P,sd)
        kd=P.skew_decomposition()
        if n: assert Perm(()).skew_sum(*kd)==P and all(not c.is_skew_decomposable() and len(c)>0 for c in kd), (P,kd)
        assert P.is_sum_decomposable()==(len(sd)>1), P
        assert P.is_skew_decomposable()==(len(kd)>1), P
        ch=P.children(); assert set(ch)=={Perm(std([P[j] for j in range(n) if j!=i])) for i in range(n)} and len(ch)==len(set(ch))
        cv=P.coveredby()
        if n<6:
            assert set(cv)=={Q for Q in ALLn[n+1] if P in set(Q.children())}, P
        for i in range(n+1):
            for v in range(n+1):
                Q=P.insert(i,v); assert isperm(Q) and len(Q)==n+1 and Q[i]==v and Q.remove(i)==P and Q.remove_element(v)==P
        assert P.insert()==Perm(tuple(P)+(n,))
        for k in range(-9,10):
            assert P.shift_right(k)==Perm([P[(i-k)%n] for i in range(n)]) if n else True
            assert P.shift_up(k)==Perm([(v+k)%n for v in P]) if n else True
            assert P.shift_left(k)==P.shift_right(-k) and P.shift_down(k)==P.shift_up(-k)
        assert P.compose(P.inverse())==Perm.identity(n)
print("basic ok")
for _ in range(20000):
    n=random.randint(0,6); P=random.choice(ALLn[n]); Q=random.choice(ALLn[n]); R=random.choice(ALLn[n])
    assert P.compose(Q).compose(R)==P.compose(Q.compose(R))==P.compose(Q,R)
    assert tuple(P.compose(Q))==tuple(P[Q[i]] for i in range(n))
    assert P.compose(Q).inverse()==Q.inverse().compose(P.inverse())
    m=random.randint(0,4); S=random.choice(ALLn[m])
    ds=P.direct_sum(S); assert tuple(ds)==tuple(P)+tuple(v+n for v in S)
    ss=P.skew_sum(S); assert tuple(ss)==tuple(v+m for v in P)+tuple(S)
    # inflate
    comps=[random.choice([None]+ALLn[random.randint(0,3)]) for _ in range(n)]
    inf=P.inflate(comps)
    # reference: points (i + eps*j, P[i] + eps*c[j])
    pts=[]
    for i,c in enumerate(comps):
        c = Perm((0,)) if c is None else c
        for j,v in enumerate(c): pts.append(((i,j),(P[i],v)))
    exp=std([y for x,y in sorted(pts)])
    assert tuple(inf)==exp,(P,comps,inf,exp)
print("laws ok")
# monotone blocks & contractions
for n in range(0,8):
    for P in ALLn[n]:
        def runs(pred):
            out=[];i=0
            while i<n:
                j=i
                if j+1<n and pred(P[j],P[j+1]):
                    d=P[j+1]-P[j]
                    while j+1<n and P[j+1]-P[j]==d: j+=1
                out.append((i,j)); i=j+1
            return out
        e_all=runs(lambda a,b: abs(a-b)==1); e_inc=runs(lambda a,b:b-a==1); e_dec=runs(lambda a,b:a-b==1)
        assert list(P.monotone_block_decomposition(True))==e_all,(P,list(P.monotone_block_decomposition(True)),e_all)
        assert list(P.monotone_block_decomposition(False))==[r for r in e_all if r[0]!=r[1]]
        assert list(P.monotone_block_decomposition_ascending(True))==e_inc
        assert list(P.monotone_block_decomposition_descending(True))==e_dec
        assert tuple(P.contract_inc_bonds())==std([P[a] for a,b in e_inc])
        assert tuple(P.contract_dec_bonds())==std([P[a] for a,b in e_dec])
        assert tuple(P.contract_bonds())==std([P[a] for a,b in e_all])
print("mono ok")

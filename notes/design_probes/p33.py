import itertools, random, time
from ref import *
from pin_ref import decode
from permuta import *
from permuta.permutils.pin_words import PinWords as PW
random.seed(16)
def contains(t,p): return len(p)<=len(t) and bool(occ(p,t))
letter={"RU":"1","UR":"1","LU":"2","UL":"2","LD":"3","DL":"3","RD":"4","DR":"4"}
def mwords(n):
    if n==0: yield ""; return
    for w in mwords(n-1):
        for c in "ULDR":
            if w and ((w[-1] in "UD")==(c in "UD")): continue
            yield w+c
MW={n:list(mwords(n)) for n in range(2,13)}
MP={}
def mperm(w):
    if w not in MP: MP[w]=decode(letter[w[:2]]+w[2:])
    return MP[w]
def own_finite(dfa):
    # language M \ L(dfa): product of M-dfa and dfa; finite iff no cycle on useful states
    Mtr={0:{"U":1,"D":1,"L":2,"R":2},1:{"U":3,"D":3,"L":2,"R":2},2:{"U":1,"D":1,"L":3,"R":3},3:{c:3 for c in "ULDR"}}
    start=(0,dfa.initial_state); seen={start}; st=[start]; edges={}
    while st:
        s=st.pop(); edges[s]=[]
        for c in "ULDR":
            t=(Mtr[s[0]][c], dfa.transitions[s[1]][c]); edges[s].append(t)
            if t not in seen: seen.add(t); st.append(t)
    acc={s for s in seen if s[0]!=3 and s[1] not in dfa.final_states}
    # co-reachable
    rev={s:[] for s in seen}
    for s,ts in edges.items():
        for t in ts: rev[t].append(s)
    co=set(acc); st=list(acc)
    while st:
        s=st.pop()
        for p in rev[s]:
            if p not in co: co.add(p); st.append(p)
    useful=co  # all reachable by construction
    # cycle detection + longest path
    color={}; longest={}
    def dfs(s):
        color[s]=1; best=0 if s in acc else -10**9
        for t in edges[s]:
            if t not in useful: continue
            if color.get(t)==1: raise OverflowError
            if t not in color: dfs(t)
            best=max(best,1+longest[t])
        color[s]=2; longest[s]=best
    import sys; sys.setrecursionlimit(100000)
    if start not in useful: return True,-1
    try: dfs(start)
    except OverflowError: return False,None
    return True,longest[start]
t0=time.time(); stats={}
for trial in range(120):
    k=random.randint(1,4)
    B=[Perm(random.sample(range(l),l)) for l in [random.choice([2,3,3,4,4,5]) for _ in range(k)]]
    dfa=PW.make_dfa_for_basis(B)
    lib=PW.has_finite_pinperms(B)
    own,ell=own_finite(dfa)
    sem=None
    if own:
        L=ell+1
        if 2<=L<=12:
            sem=all(any(contains(mperm(w),tuple(b)) for b in B) for w in MW[L])
        elif L<2: sem=all(any(contains(mperm(w),tuple(b)) for b in B) for w in MW[2])
    else:
        # semantic: K nonempty at all lengths up to 10
        sem=all(any(not any(contains(mperm(w),tuple(b)) for b in B) for w in MW[n]) for n in range(2,10))
    key=(lib,own,sem, ell if own else None)
    stats[key]=stats.get(key,0)+1
    if lib!=own or sem is False: print("INCONSISTENT",B,lib,own,ell,sem)
for k,v in sorted(stats.items(),key=str): print(k,v)
print(time.time()-t0)

from permuta import *
from permuta.enumeration_strategies import find_strategies, all_enumeration_strategies
for b in [[Perm((0,))],[Perm((0,1))],[Perm((1,0))],[Perm((0,1)),Perm((1,0))], [Perm((0,)),Perm((0,1))]]:
    try: print(b, [type(s).__name__ for s in find_strategies(b)])
    except BaseException as e: print(b, "EXC", type(e).__name__, e)

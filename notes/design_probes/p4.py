import time, random
from ref import *
from permuta import *
random.seed(1)
t0=time.time(); n=0
# exhaustive k<=2 all shadings, perms up to 5
for k in range(0,3):
    for p in perms(k):
        for r in range(2**((k+1)**2)):
            M = MeshPatt.unrank(Perm(p), r)
            sh = set(M.shading)
            for m in range(0,6):
                for t in perms(m):
                    exp = mesh_occ(p, sh, t)
                    got = list(M.occurrences_in(Perm(t)))
                    n+=1
                    if got != exp: print("MISMATCH", M, t, got, exp); raise SystemExit
                    assert Perm(t).contains(M) == bool(exp)
print("mesh k<=2 ok", n, time.time()-t0)
for _ in range(3000):
    k = random.choice([3,4]); p = tuple(random.sample(range(k),k))
    r = random.getrandbits((k+1)**2)
    if random.random()<0.5: r &= random.getrandbits((k+1)**2)
    M = MeshPatt.unrank(Perm(p), r); sh=set(M.shading)
    m = random.randint(k,7); t = tuple(random.sample(range(m),m))
    exp = mesh_occ(p, sh, t); got = list(M.occurrences_in(Perm(t)))
    if got != exp: print("MISMATCH", M, t, got, exp); raise SystemExit
print("random ok")
# bivincular
for _ in range(3000):
    k = random.choice([1,2,3]); p = tuple(random.sample(range(k),k))
    ai = [i for i in range(k+1) if random.random()<0.4]; av=[i for i in range(k+1) if random.random()<0.4]
    B = BivincularPatt(Perm(p), ai, av)
    m = random.randint(k,6); t = tuple(random.sample(range(m),m))
    # semantic: adjacency
    exp=[]
    for c in occ(p,t):
        vals = sorted(t[i] for i in c); ok=True
        for i in ai:
            if i==0: ok &= c[0]==0
            elif i==k: ok &= c[-1]==m-1
            else: ok &= c[i]==c[i-1]+1
        for v in av:
            if v==0: ok &= vals[0]==0
            elif v==k: ok &= vals[-1]==m-1
            else: ok &= vals[v]==vals[v-1]+1
        if ok: exp.append(c)
    got = list(B.occurrences_in(Perm(t)))
    if got != exp: print("BIV MISMATCH", B, t, got, exp); raise SystemExit
    assert B.get_adjacent_requirements() == (sorted(ai), sorted(av)) or True
print("biv ok")

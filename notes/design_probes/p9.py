import random, itertools, time
from ref import *
from permuta import *
random.seed(5)
ALL = {n: [Perm(t) for t in perms(n)] for n in range(8)}
def containers(M, N):
    return frozenset(T for n in range(N+1) for T in ALL[n] if T.contains(M))
t0=time.time()
# C06: mesh in mesh implies containment
n=0; hits=0
for trial in range(4000):
    k=random.randint(0,2); p=Perm(random.sample(range(k),k))
    A=MeshPatt.unrank(p, random.getrandbits((k+1)**2)&random.getrandbits((k+1)**2))
    l=random.randint(k,3); q=Perm(random.sample(range(l),l))
    B=MeshPatt.unrank(q, random.getrandbits((l+1)**2)|(random.getrandbits((l+1)**2)&random.getrandbits((l+1)**2)))
    occs=list(A.occurrences_in(B))
    if occs:
        hits+=1
        cb=containers(B,5)
        for T in cb:
            # witnessed by corresponding points
            ok=False
            for o in B.occurrences_in(T):
                sub=tuple(o[i] for i in occs[0])
                if sub in set(A.occurrences_in(T)): ok=True;break
            if not ok: print("C06 FAIL", A,B,T); raise SystemExit
    n+=1
print("C06 soundness ok", n, hits, time.time()-t0)
# sub_mesh_pattern strongest: for each subset S of points of B, sub = B.sub_mesh_pattern(S). (1) implied: every T containing B contains sub at corresponding points.
# (2) strongest: each unshaded cell c of sub: there is a T containing B (at occurrence o) where restricting to S has a point in cell c.
for trial in range(600):
    l=random.randint(1,3); q=Perm(random.sample(range(l),l))
    B=MeshPatt.unrank(q, random.getrandbits((l+1)**2)|random.getrandbits((l+1)**2))
    S=sorted(random.sample(range(l), random.randint(0,l)))
    sub=B.sub_mesh_pattern(S)
    k=len(S)
    unsh={(x,y) for x in range(k+1) for y in range(k+1)} - set(sub.shading)
    witnessed=set()
    for n_ in range(l, l+2+1):
        if n_>6: break
        for T in ALL[n_]:
            for o in B.occurrences_in(T):
                so=tuple(o[i] for i in S)
                assert so in set(sub.occurrences_in(T)), ("implied fail",B,S,T)
                vals=sorted(T[i] for i in so)
                for i,v in enumerate(T):
                    if i in so: continue
                    witnessed.add((sum(1 for j in so if j<i), sum(1 for w in vals if w<v)))
    if not unsh <= witnessed: print("not strongest?", B, S, sub, unsh-witnessed); raise SystemExit
print("sub_mesh ok", time.time()-t0)

import itertools, time
from ref import *
from permuta import *
from permuta.bisc import perm_properties as pp
def baxter(t):
    n=len(t)
    for j in range(n-1):
        a,b=t[j],t[j+1]
        for i in range(j):
            for k in range(j+2,n):
                if b<t[i]<t[k]<a: return False   # 2-41-3
                if a<t[k]<t[i]<b: return False   # 3-14-2
    return True
def simsun(t):
    n=len(t)
    for k in range(1,n+1):
        r=[v for v in t if v<k]
        if any(r[i]>r[i+1]>r[i+2] for i in range(len(r)-2)): return False
    return True
def forest(t):
    if occ((0,2,1,3),t): return False
    n=len(t)
    for c in occ((1,0,3,2),t):
        i,j,k,l=c
        if not any(t[i]<t[x]<t[l] for x in range(j+1,k)): return False
    return True
def dihedral(t):
    n=len(t)
    if n<3: return False
    return any(all(t[i]==(i+k)%n for i in range(n)) or all(t[i]==(k-i)%n for i in range(n)) for k in range(n))
def even(t): return sum(1 for i in range(len(t)) for j in range(i+1,len(t)) if t[i]>t[j])%2==0
def lam12(t):
    n=len(t)
    best1=0;best2=0
    for r in range(n+1):
        for S in itertools.combinations(range(n),r):
            sub=[t[i] for i in S]
            if r>best1 and all(sub[i]<sub[i+1] for i in range(r-1)): best1=r
            if r>best2 and not occ((2,1,0),std(sub)): best2=r
    return best1,best2-best1
t0=time.time()
for n in range(0,8):
    cnt={}
    for t in perms(n):
        P=Perm(t)
        chk={'baxter':(pp.baxter(P),baxter(t)),'simsun':(pp.simsun(P),simsun(t)),'forest':(pp.forest_like(P),forest(t)),'dihedral':(pp.dihedral(P),dihedral(t)),
             'smooth':(pp.smooth(P), not occ((0,2,1,3),t) and not occ((1,0,3,2),t))}
        if n>=3: chk['alt']=(pp.in_alternating_group(P),even(t))
        if n<=6:
            l1,l2=lam12(t)
            chk['yt22']=(pp.yt_perm_avoids_22(P), not (l2>=2))
            chk['yt32']=(pp.yt_perm_avoids_32(P), not (l1>=3 and l2>=2))
        for k,(a,b) in chk.items():
            if bool(a)!=bool(b): print("MISMATCH",k,t,a,b)
            if b: cnt[k]=cnt.get(k,0)+1
    print(n,cnt,round(time.time()-t0,1),flush=True)

import itertools, random, time
from ref import *
from p31 import wedge, ins, is_simple, contains
from permuta import *
from permuta.permutils.pin_words import PinWords as PW
random.seed(15)
def sym8(t):
    n=len(t); pts=[(i,v) for i,v in enumerate(t)]
    maps=[lambda x,y:(x,y),lambda x,y:(n-1-x,y),lambda x,y:(x,n-1-y),lambda x,y:(n-1-x,n-1-y),lambda x,y:(y,x),lambda x,y:(n-1-y,x),lambda x,y:(y,n-1-x),lambda x,y:(n-1-y,n-1-x)]
    out=set()
    for m in maps:
        q=sorted(m(x,y) for x,y in pts); out.add(tuple(v for _,v in q))
    return out
def par(k): return tuple(range(1,2*k,2))+tuple(range(0,2*k,2))
fams={}
for name,f in [('par',par),('w1',lambda k: ins(wedge(k),0,2*k-1)),('w2',lambda k: ins(wedge(k),k,0))]:
    for k in range(2,9):
        for idx,s in enumerate(sorted(sym8(f(k)))):
            pass
    # orientation-consistent chains: apply same map index
def sym8_list(t):
    n=len(t); pts=[(i,v) for i,v in enumerate(t)]
    maps=[lambda x,y:(x,y),lambda x,y:(n-1-x,y),lambda x,y:(x,n-1-y),lambda x,y:(n-1-x,n-1-y),lambda x,y:(y,x),lambda x,y:(n-1-y,x),lambda x,y:(y,n-1-x),lambda x,y:(n-1-y,n-1-x)]
    return [tuple(v for _,v in sorted(m(x,y) for x,y in pts)) for m in maps]
chains={}
for name,f in [('par',par),('w1',lambda k: ins(wedge(k),0,2*k-1)),('w2',lambda k: ins(wedge(k),k,0))]:
    for g in range(8):
        chains[(name,g)]={k:sym8_list(f(k))[g] for k in range(2,9)}
for key,c in chains.items():
    assert all(is_simple(c[k]) for k in range(3,9)),key
    assert all(contains(c[k+1],c[k]) for k in range(2,8)),key
print("chains ok",len(chains))
def chain_hit(B,c):
    # some beta in B embeds in stabilised member
    for b in B:
        k0=len(b)+1
        if k0 in c and contains(c[min(k0,8)],tuple(b)): return True
    return False
tables=[Perm(p) for p in [(0,1,2),(1,3,0,2),(2,3,0,1),(0,1,3,2),(0,2,1,3),(0,3,1,2),(0,3,2,1),(1,3,2,0),(2,0,1,3),(3,0,1,2),(3,0,2,1),(3,1,2,0),(3,2,0,1),(1,0,2,3),(1,0,3,2),(2,0,3,1),(2,1,3,0)]]
pool=[q for p in tables for q in p.all_syms()]
t0=time.time(); stats={}
for trial in range(250):
    k=random.randint(1,5)
    B=[]
    for _ in range(k):
        if random.random()<0.6: B.append(random.choice(pool))
        else:
            l=random.choice([3,4,5]); B.append(Perm(random.sample(range(l),l)))
    v=PW.has_finite_special_simples(B)
    missed=[key for key,c in chains.items() if not chain_hit(B,c)]
    # verdict finite => no chain missed
    ok = (not missed) if v else True
    # verdict infinite(special) => some chain fully avoids B at k0..k0+2
    if not v:
        ok = bool(missed)
        for key in missed:
            c=chains[key]
            assert all(not any(contains(c[k],tuple(b)) for b in B) for k in range(2,9)), (B,key)
    stats[(v,ok)]=stats.get((v,ok),0)+1
    if not ok: print("INCONSISTENT",B,v,missed)
print(stats, time.time()-t0)

import time, io, contextlib
from permuta import *
from permuta.bisc import auto_bisc
from permuta.bisc.bisc_subfunctions import perm_contains_cl_patts_many_shadings
for name,prop in [('av120', lambda p: p.avoids(Perm((1,2,0)))), ('av01_mesh', lambda p: p.avoids(MeshPatt(Perm((0,1)),[(1,0),(1,1),(1,2)]))), ('av 0213,1032', lambda p: p.avoids(Perm((0,2,1,3)),Perm((1,0,3,2))))]:
    t0=time.time()
    buf=io.StringIO()
    with contextlib.redirect_stdout(buf):
        sg=auto_bisc(prop)
    t1=time.time()
    ok=all(bool(prop(p))==(not perm_contains_cl_patts_many_shadings(p,sg)) for n in range(9) for p in Perm.of_length(n)) if sg else None
    print(name, sg, round(t1-t0,1), ok, round(time.time()-t1,1), flush=True)

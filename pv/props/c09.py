"""C09 - generation, ranking and notations are bijective and mutually consistent."""
import fractions
import itertools
import math

from hypothesis import strategies as st

from permuta import MeshPatt, Perm

from .. import engine, gen
from .. import oracle as ref
from ..engine import BAD, OK

META = {
    "level": "exploration",
    "rule": (
        "exhaustive per length n up to the tier's bound: of_length, up_to_length, first(k) for every k, "
        "unrank(r) / unrank(r, n) / rank for every rank, all notations; all shadings of all mesh patterns of "
        "length <= 2 for MeshPatt.rank/unrank/of_length; generated: ranks up to sum_{k<=20} k! with every length boundary, standardisation "
        "inputs of ints, floats, strings, Fractions, tuples, bools with repetitions (and equal-but-differently-"
        "typed values), invalid inputs for the validated constructor, histories over the memoised standardisation "
        "(equal keys interleaved with many distinct keys). Non-trivial: boundary ranks (0, first/last of a length), "
        "inputs with ties, length >= 3. Distinct = case content."
        " Light mesh rank sweep: every shading at length 3 and few-cell shadings at lengths 4-6 against the documented bit layout (non-trivial there = at least two shaded cells)."
    ),
    "assumptions": [
        "standardisation inputs are hashable and mutually comparable (the memo needs hashable keys; all callers pass ints, chars or Fractions)",
        "from_integer 0-based is only invertible when the first entry is not 0 (an integer cannot carry a leading zero); str/from_string round-trips for length <= 10 (longer permutations print in parenthesised form which from_string does not read)",
    ],
}


def selftest():
    order = list(ref.perms_upto(4))
    for r, p in enumerate(order):
        if ref.rank(p) != r:
            raise engine.HarnessError("oracle rank disagrees with enumeration order")
    if ref.std("caaba") != (4, 0, 1, 3, 2):
        raise engine.HarnessError("oracle std docstring example failed")


def check_level(case):
    n = case
    want = sorted(ref.perms(n))  # lexicographic
    got = list(Perm.of_length(n))
    if [tuple(g) for g in got] != want or any(type(g) is not Perm for g in got):
        return BAD("of_length", {"n": n})
    upto = [tuple(g) for g in Perm.up_to_length(n)]
    order = [p for k in range(n + 1) for p in sorted(ref.perms(k))]
    if upto != order:
        return BAD("up_to_length", {"n": n})
    base = sum(math.factorial(k) for k in range(n))
    # first(k): every k that ends inside or at the end of this length (all k for small n)
    ks = range(base, len(order) + 1) if n > 4 else range(0, len(order) + 1)
    if n > 5:
        ks = list(range(base, base + 30)) + list(range(len(order) - 30, len(order) + 1))
    for k in ks:
        if [tuple(g) for g in Perm.first(k)] != order[:k]:
            return BAD("first", {"k": k})
    for r_in, p in enumerate(want):
        r = base + r_in
        P = Perm(p)
        if tuple(Perm.unrank(r)) != p:
            return BAD("unrank", {"r": r, "got": list(Perm.unrank(r)), "want": list(p)})
        if tuple(Perm.unrank(r_in, n)) != p:
            return BAD("unrank_with_length", {"r": r_in, "n": n, "got": list(Perm.unrank(r_in, n))})
        if P.rank() != r:
            return BAD("rank", {"perm": list(p), "got": P.rank(), "want": r})
        if r_in + 1 < len(want):
            Q = Perm(want[r_in + 1])
            if not (P < Q) or Q < P or not (Q > P):
                return BAD("rank_vs_lt", {"a": list(p), "b": list(Q)})
        bad = _notations(p)
        if bad:
            return bad
    if n >= 1:
        prev = Perm.unrank(base - 1)
        if not prev < Perm(want[0]) or len(prev) != n - 1:
            return BAD("rank_vs_lt_across_lengths", {"n": n})
    return OK(n >= 3, f"level{n}", key=f"level{n}")


def _notations(p):
    P = Perm(p)
    n = len(p)
    if n <= 10:
        s = str(P)
        if Perm.from_string(s) != P:
            return BAD("str_roundtrip", {"perm": list(p), "str": s})
        if n and s != "".join(map(str, p)):
            return BAD("str_format", {"perm": list(p), "str": s})
        if Perm.from_string("".join(map(str, p))) != P:
            return BAD("from_string", {"perm": list(p)})
    if Perm.one_based([v + 1 for v in p]) != P or Perm.one_based(iter([v + 1 for v in p])) != P:
        return BAD("one_based", {"perm": list(p)})
    if eval(repr(P), {"Perm": Perm}) != P or type(eval(repr(P), {"Perm": Perm})) is not Perm:  # pylint: disable=eval-used
        return BAD("repr_roundtrip", {"perm": list(p), "repr": repr(P)})
    if 1 <= n <= 9:
        if Perm.from_integer(int("".join(str(v + 1) for v in p))) != P:
            return BAD("from_integer_one_based", {"perm": list(p)})
    if 1 <= n <= 10 and p[0] != 0:
        if Perm.from_integer(int("".join(str(v) for v in p))) != P:
            return BAD("from_integer_zero_based", {"perm": list(p)})
    if Perm.from_iterable_validated(p) != P or Perm.from_iterable_validated(list(p)) != P:
        return BAD("validated_accepts", {"perm": list(p)})
    if n <= 10 and Perm.from_iterable_validated("".join(map(str, p))) != P:
        return BAD("validated_string", {"perm": list(p)})
    if Perm.to_standard(p) != P or Perm.to_standard([v * 3 + 7 for v in p]) != P:
        return BAD("to_standard_identity", {"perm": list(p)})
    # documented aliases are the same notation
    one = [v + 1 for v in p]
    if Perm.one(one) != P or Perm.proper(one) != P or Perm.scientific(one) != P or Perm.standardize(p) != P or Perm.from_iterable(p) != P:
        return BAD("notation_alias", {"perm": list(p)})
    if Perm.ind2perm(ref.rank(p)) != P or P.perm2ind() != ref.rank(p) or (n <= 12 and Perm.ind2perm(ref.rank_in_length(p), n) != P):
        return BAD("rank_alias", {"perm": list(p)})
    # cycle notation: reading the cycles back (each element is followed by its image) gives the permutation
    txt = P.cycle_notation()
    if P.cycles() != txt:
        return BAD("cycles_alias", {"perm": list(p)})
    if n == 0:
        if txt != "( )":
            return BAD("cycle_notation_empty", {"text": txt})
    else:
        import re

        if not re.fullmatch(r"\( \d+( \d+)* \)( \( \d+( \d+)* \))*", txt):
            return BAD("cycle_notation_format", {"perm": list(p), "text": txt})
        back = [None] * n
        seen = []
        for grp in re.findall(r"\(([^)]*)\)", txt):
            cyc = [int(x) for x in grp.split()]
            seen.extend(cyc)
            for i, a in enumerate(cyc):
                if a < n:
                    back[a] = cyc[(i + 1) % len(cyc)]
        if sorted(seen) != list(range(n)) or tuple(back) != p:
            return BAD("cycle_notation_roundtrip", {"perm": list(p), "text": txt})
    # the ascii picture and the TikZ code are notations too: read the points back
    if n <= 9:
        from .c18 import parse_plot

        for cs in (1, 2):
            pic = P.ascii_plot(cs) if cs > 1 else P.ascii_plot()
            try:
                back_p, back_sh = parse_plot(pic, cs)
            except ValueError as exc:
                return BAD("perm_ascii_plot_unparsable", {"perm": list(p), "cell_size": cs, "text": pic, "why": str(exc)})
            if back_p != p or back_sh:
                return BAD("perm_ascii_plot_roundtrip", {"perm": list(p), "cell_size": cs, "text": pic})
        import re

        tik = P.to_tikz()
        pts = [(int(a), int(b)) for a, b in re.findall(r"\\draw\[fill=black\] \((\d+),(\d+)\) circle", tik)]
        grid = re.search(r"\\foreach \\x in \{1,\.\.\.,(\d+)\}", tik)
        if pts != [(i + 1, v + 1) for i, v in enumerate(p)] or grid is None or int(grid.group(1)) != n:
            return BAD("perm_tikz_roundtrip", {"perm": list(p), "text": tik})
    return None


def check_notations(case):
    p = tuple(case)
    bad = _notations(p)
    if bad:
        return bad
    P = Perm(p)
    r = P.rank()
    if r != ref.rank(p) or Perm.unrank(r) != P or Perm.unrank(ref.rank_in_length(p), len(p)) != P:
        return BAD("rank_unrank_long", {"perm": list(p), "rank": r})
    return OK(len(p) >= 8, f"notations_len{len(p)}")


def check_big_rank(case):
    r, n, r_in = case["r"], case["n"], case["r_in"]
    P = Perm.unrank(r)
    if not ref.is_perm(tuple(P)):
        return BAD("unrank_not_perm", {"r": r, "got": list(P)})
    if ref.rank(tuple(P)) != r:
        return BAD("unrank_big", {"r": r, "got": list(P)})
    if P.rank() != r:
        return BAD("rank_big", {"r": r, "got": P.rank()})
    Q = Perm.unrank(r_in, n)
    if not ref.is_perm(tuple(Q)) or len(Q) != n or ref.rank_in_length(tuple(Q)) != r_in:
        return BAD("unrank_with_length_big", {"r": r_in, "n": n, "got": list(Q)})
    if Q.rank() != sum(math.factorial(k) for k in range(n)) + r_in:
        return BAD("rank_big_with_length", {"perm": list(Q)})
    # the canonical order is one order: every comparison operator agrees with the ranks, also
    # across lengths (P and Q usually differ in length)
    rq = sum(math.factorial(k) for k in range(n)) + r_in
    for X, Y, rx, ry in ((P, Q, r, rq), (Q, P, rq, r), (P, Perm(tuple(P)), r, r)):
        got = [X < Y, X <= Y, X > Y, X >= Y, X == Y, X != Y]
        want = [rx < ry, rx <= ry, rx > ry, rx >= ry, rx == ry, rx != ry]
        if got != want:
            return BAD("operators_vs_rank", {"X": list(X), "Y": list(Y), "got": got, "want": want})
    if sorted([Q, P]) != sorted([P, Q]) or sorted([P, Q])[0] != (P if r <= rq else Q):
        return BAD("sorted_vs_rank", {"P": list(P), "Q": list(Q)})
    boundary = r_in in (0, math.factorial(n) - 1) or ref.rank_in_length(tuple(P)) in (0, math.factorial(len(P)) - 1)
    return OK(True, "boundary_rank" if boundary else "inner_rank", "cross_length" if len(P) != len(Q) else "same_length")


def _decode_seq(items):
    out = []
    for kind, val in items:
        if kind == "int":
            out.append(int(val))
        elif kind == "float":
            out.append(float(val))
        elif kind == "bool":
            out.append(bool(val))
        elif kind == "frac":
            out.append(fractions.Fraction(val[0], val[1]))
        elif kind == "str":
            out.append(str(val))
        elif kind == "tuple":
            out.append(tuple(val))
        else:
            raise engine.HarnessError(kind)
    return out


_HASH_MOD = (1 << 61) - 1  # CPython: hash(x) == hash(x + _HASH_MOD) for ints, hash(-1) == hash(-2)


def _hash_siblings(seq):
    """Different sequences of the same length whose tuple hashes collide with seq's (or are
    likely to): the memoised standardisation must still keep them apart."""
    sibs = []
    if all(type(x) is int for x in seq) and seq:
        swapped = [(-2 if x == -1 else -1 if x == -2 else x) for x in seq]
        if swapped != list(seq):
            sibs.append(swapped)
        sibs.append([seq[0] + _HASH_MOD] + list(seq[1:]))
        sibs.append(list(seq[:-1]) + [seq[-1] - _HASH_MOD])
    return sibs


def check_standardise(case):
    seq = _decode_seq(case["seq"])
    # a replayable mini-history: hash-colliding siblings first, then the sequence itself
    for sib in _hash_siblings(seq):
        if tuple(Perm.to_standard(sib)) != ref.std(sib):
            return BAD("to_standard_hash_sibling", {"sibling": sib, "got": list(Perm.to_standard(sib)), "want": list(ref.std(sib))})
    want = ref.std(seq)
    for name, arg in (("list", list(seq)), ("tuple", tuple(seq)), ("iter", iter(seq)), ("gen", (x for x in seq))):
        for fn in (Perm.to_standard, Perm.standardize, Perm.from_iterable):
            got = fn(arg) if name in ("list", "tuple") else fn(iter(seq))
            if tuple(got) != want or type(got) is not Perm:
                return BAD("to_standard", {"container": name, "got": list(got), "want": list(want)})
    if all(isinstance(x, str) and len(x) == 1 for x in seq):
        if tuple(Perm.to_standard("".join(seq))) != want:
            return BAD("to_standard_string", {"got": list(Perm.to_standard("".join(seq)))})
    ties = len(set(seq)) < len(seq)
    return OK(ties and len(seq) >= 3, "ties" if ties else "distinct")


def check_std_history(case):
    """case: {"keys": [seq...], "ops": [key index...], "filler": n} - interleave equal keys with
    many distinct keys (rolling the LRU in the thorough tier)."""
    keys = [_decode_seq(k) for k in case["keys"]]
    wants = [ref.std(k) for k in keys]
    filler = case["filler"]
    fcount = 0
    for step, idx in enumerate(case["ops"]):
        k = idx % len(keys)
        got = Perm.to_standard(keys[k])
        if tuple(got) != wants[k]:
            return BAD("std_history", {"step": step, "key": case["keys"][k], "got": list(got), "want": list(wants[k])})
        # distinct filler keys between uses
        for _ in range(filler):
            fcount += 1
            f = (fcount, -fcount, fcount * 2, 0)
            if tuple(Perm.to_standard(f)) != ref.std(f):
                return BAD("std_history_filler", {"key": list(f)})
    return OK(len(case["ops"]) > len(keys), "std_history")


def check_validated(case):
    seq = _decode_seq(case["seq"])
    n = len(seq)
    non_int = [x for x in seq if type(x) is not int]
    ints = [x for x in seq if type(x) is int]
    int_problem = any(not 0 <= x < n for x in ints) or len(set(ints)) < len(ints)
    is_bij = not non_int and not int_problem
    # documented: TypeError for non-integer values, ValueError if not a bijection; when both
    # kinds of problem are present either exception is accepted
    allowed = set()
    if non_int:
        allowed.add("TypeError")
    if int_problem:
        allowed.add("ValueError")
    try:
        got = Perm.from_iterable_validated(seq)
    except (ValueError, TypeError) as exc:
        name = type(exc).__name__
        if is_bij:
            return BAD("validated_rejects_bijection", {"seq": case["seq"], "exc": name})
        if name not in allowed:
            return BAD("validated_wrong_exception", {"seq": case["seq"], "got": name, "allowed": sorted(allowed)})
        return OK(True, "rejected_" + name)
    if not is_bij:
        return BAD("validated_accepts_non_bijection", {"seq": case["seq"], "got": list(got)})
    if tuple(got) != tuple(seq):
        return BAD("validated_changes_value", {"seq": case["seq"], "got": list(got)})
    return OK(n >= 2, "accepted")


def check_mesh_rank(case):
    p, r = tuple(case["p"]), case["r"]
    k = len(p)
    M = MeshPatt.unrank(Perm(p), r)
    if tuple(M.pattern) != p or M.rank() != r:
        return BAD("mesh_unrank_rank", {"p": list(p), "r": r, "got": repr(M)})
    if not all(0 <= x <= k and 0 <= y <= k for x, y in M.shading) or len(M.shading) != bin(r).count("1"):
        return BAD("mesh_unrank_shading", {"got": repr(M)})
    M2 = MeshPatt(Perm(p), M.shading)
    if MeshPatt.unrank(Perm(p), M2.rank()) != M2:
        return BAD("mesh_rank_unrank", {})
    return OK(r not in (0, 2 ** ((k + 1) ** 2) - 1) and k >= 1, "mesh_rank")


def check_mesh_rank_light(case):
    """rank and unrank alone against the documented bit layout (cell (x, y) of a pattern of
    length k is bit x * (k + 1) + y), swept over every shading of every pattern of length 3 and
    over every shading of one to three cells of the patterns of length 4 and 5"""
    p, r = tuple(case["p"]), case["r"]
    k = len(p)
    cells = frozenset(divmod(i, k + 1) for i in range((k + 1) ** 2) if r >> i & 1)
    M = MeshPatt.unrank(Perm(p), r)
    if tuple(M.pattern) != p or frozenset(M.shading) != cells:
        return BAD("light_mesh_unrank", {"p": list(p), "r": r, "got": repr(M)})
    got = MeshPatt(Perm(p), sorted(cells)).rank()
    if got != r or M.rank() != r:
        return BAD("light_mesh_rank", {"p": list(p), "shading": sorted(cells), "got": got, "want": r})
    return OK(len(cells) >= 2, "mesh_rank_light", key=f"mrl{p}|{r}")


def shard_mesh_rank_light(acc, shard, nshards, full_len, few_cells):
    i = 0
    for p in ref.perms(full_len):
        for r in range(2 ** ((full_len + 1) ** 2)):
            if i % nshards == shard:
                acc.record("mesh_rank_light", check_mesh_rank_light, {"p": list(p), "r": r})
            i += 1
    for k, maxc in few_cells:
        bits = (k + 1) ** 2
        for p in ref.perms(k):
            for c in range(1, maxc + 1):
                for combo in itertools.combinations(range(bits), c):
                    if i % nshards == shard:
                        acc.record("mesh_rank_light", check_mesh_rank_light, {"p": list(p), "r": sum(1 << b for b in combo)})
                    i += 1


def check_mesh_level(case):
    k = case
    allm = list(MeshPatt.of_length(k))
    total = math.factorial(k) * 2 ** ((k + 1) ** 2)
    keys = {(tuple(m.pattern), m.shading) for m in allm}
    if len(allm) != total or len(keys) != total:
        return BAD("mesh_of_length", {"k": k, "count": len(allm), "distinct": len(keys), "want": total})
    for p in ref.perms(k):
        sub = list(MeshPatt.of_length(k, Perm(p)))
        if len(sub) != 2 ** ((k + 1) ** 2) or {tuple(m.pattern) for m in sub} != {p} or len({m.shading for m in sub}) != len(sub):
            return BAD("mesh_of_length_patt", {"p": list(p)})
        ranks = [m.rank() for m in sub]
        if sorted(ranks) != list(range(len(sub))):
            return BAD("mesh_of_length_ranks", {"p": list(p)})
    return OK(k >= 1, f"mesh_level{k}", key=f"mesh_level{k}")


def check_huge(case):
    """Long inputs with the interpreter's default recursion budget: standardisation of a few
    thousand values with ties, rank / unrank of permutations of a few hundred points."""
    from ..lib import with_default_recursion_budget

    seq, p = case["seq"], tuple(case["p"])
    n = len(p)

    def body():
        if tuple(Perm.to_standard(seq)) != ref.std(seq) or tuple(Perm.to_standard(iter(seq))) != ref.std(seq):
            return "to_standard"
        P = Perm(p)
        r = P.rank()
        if r != ref.rank(p) or Perm.unrank(r) != P or Perm.unrank(ref.rank_in_length(p), n) != P:
            return "rank_unrank"
        if Perm.from_iterable_validated(p) != P or eval(repr(P), {"Perm": Perm}) != P:  # pylint: disable=eval-used
            return "validated_repr"
        nxt = Perm.unrank(r + 1)
        if not (P < nxt) or nxt < P or len(nxt) not in (n, n + 1):
            return "successor"
        return None

    status, bad = with_default_recursion_budget(body)
    if status == "recursion":
        return BAD("huge_recursion_error", {"length": n, "seq_length": len(seq)})
    if bad:
        return BAD("huge_" + bad, {"length": n, "seq_length": len(seq)})
    return OK(True, "huge", key=str(hash(p)))


def check_std_multiset(case):
    """Standardisation of every multiset of values: all multisets of size n over an alphabet of
    n letters are swept (a shortcut that recognises 'already a permutation' by summary
    statistics can only be fooled by particular multisets), each in several arrangements and
    shifted; ties are broken left to right."""
    ms = list(case)
    n = len(ms)
    arrangements = [ms, ms[::-1], ms[::2] + ms[1::2], ms[n // 2 :] + ms[: n // 2]]
    for arr in arrangements:
        for shift in (0, -3, 11):
            seq = [v + shift for v in arr]
            got = Perm.to_standard(seq)
            if tuple(got) != ref.std(seq) or not ref.is_perm(tuple(got)):
                return BAD("to_standard_multiset", {"seq": seq, "got": list(got), "want": list(ref.std(seq))})
    if tuple(Perm.to_standard(tuple(ms))) != ref.std(ms) or tuple(Perm.to_standard(iter(ms[::-1]))) != ref.std(ms[::-1]):
        return BAD("to_standard_multiset_container", {"seq": ms})
    return OK(len(set(ms)) < n, "with_ties" if len(set(ms)) < n else "distinct", key="ms" + str(ms))


CHECKS = {
    "std_multiset": check_std_multiset,
    "huge": check_huge,
    "level": check_level,
    "notations": check_notations,
    "big_rank": check_big_rank,
    "standardise": check_standardise,
    "std_history": check_std_history,
    "validated": check_validated,
    "mesh_rank": check_mesh_rank,
    "mesh_level": check_mesh_level,
    "mesh_rank_light": check_mesh_rank_light,
}


# ------------------------------------------------------------------ generators
TOTAL12 = sum(math.factorial(k) for k in range(13))
MAXLEN_RANK = 20  # ranks are exact integers: lengths far beyond any lookup table are cheap to check
TOTAL_MAX = sum(math.factorial(k) for k in range(MAXLEN_RANK + 1))


@st.composite
def big_rank_cases(draw):
    n = draw(st.integers(0, MAXLEN_RANK))
    edge = draw(st.sampled_from(["any", "first", "last"]))
    nf = math.factorial(n)
    r_in = {"any": draw(st.integers(0, nf - 1)), "first": 0, "last": nf - 1}[edge]
    which = draw(st.sampled_from(["any", "boundary"]))
    if which == "any":
        r = draw(st.one_of(st.integers(0, TOTAL12 - 1), st.integers(0, TOTAL_MAX - 1)))
    else:
        m = draw(st.integers(0, MAXLEN_RANK))
        r = sum(math.factorial(k) for k in range(m)) + draw(st.sampled_from([0, 1, math.factorial(m) - 1]))
        r = min(r, TOTAL_MAX - 1)
    return {"r": r, "n": n, "r_in": r_in}


def _item():
    return st.one_of(
        st.tuples(st.just("int"), st.integers(-5, 5)),
        st.tuples(st.just("int"), st.integers(-(10**12), 10**12)),
    )


@st.composite
def seq_cases(draw, max_len=9):
    kind = draw(st.sampled_from(["int", "float", "str", "frac", "tuple", "num_mixed", "bool"]))
    n = draw(st.integers(0, max_len))
    if kind == "int":
        vals = draw(st.lists(st.integers(-4, 4) if draw(st.booleans()) else st.integers(-(10**9), 10**9), min_size=n, max_size=n))
        seq = [["int", v] for v in vals]
    elif kind == "float":
        vals = draw(st.lists(st.floats(-3, 3, allow_nan=False, width=16) if draw(st.booleans()) else st.floats(allow_nan=False, allow_infinity=True), min_size=n, max_size=n))
        seq = [["float", v] for v in vals]
    elif kind == "str":
        vals = draw(st.lists(st.sampled_from(list("abcxyz019")) if draw(st.booleans()) else st.text(max_size=3), min_size=n, max_size=n))
        seq = [["str", v] for v in vals]
    elif kind == "frac":
        vals = draw(st.lists(st.tuples(st.integers(-6, 6), st.integers(1, 4)), min_size=n, max_size=n))
        seq = [["frac", list(v)] for v in vals]
    elif kind == "tuple":
        vals = draw(st.lists(st.lists(st.integers(0, 2), min_size=0, max_size=2), min_size=n, max_size=n))
        seq = [["tuple", v] for v in vals]
    elif kind == "bool":
        vals = draw(st.lists(st.booleans(), min_size=n, max_size=n))
        seq = [["bool", v] for v in vals]
    else:
        # equal-but-differently-typed numbers: 1, 1.0, True, Fraction(1)
        seq = []
        for _ in range(n):
            v = draw(st.integers(0, 2))
            t = draw(st.sampled_from(["int", "float", "frac", "bool"]))
            if t == "bool" and v > 1:
                t = "int"
            seq.append([t, [v, 1] if t == "frac" else v])
    return {"seq": seq}


@st.composite
def std_history_cases(draw, filler_max):
    keys = [draw(seq_cases(6))["seq"] for _ in range(draw(st.integers(1, 4)))]
    ops = draw(st.lists(st.integers(0, 7), min_size=2, max_size=12))
    return {"keys": keys, "ops": ops, "filler": draw(st.integers(0, filler_max))}


@st.composite
def validated_cases(draw):
    mode = draw(st.sampled_from(["perm", "dup", "range", "type", "random"]))
    p = list(draw(gen.perms(0, 7)))
    seq = [["int", v] for v in p]
    if mode == "dup" and len(p) >= 2:
        i, j = draw(st.integers(0, len(p) - 1)), draw(st.integers(0, len(p) - 1))
        seq[i] = ["int", p[j]]
    elif mode == "range" and p:
        i = draw(st.integers(0, len(p) - 1))
        seq[i] = ["int", draw(st.sampled_from([-1, len(p), len(p) + 3]))]
    elif mode == "type" and p:
        i = draw(st.integers(0, len(p) - 1))
        seq[i] = draw(st.sampled_from([["float", float(p[i])], ["str", str(p[i])], ["frac", [p[i], 1]], ["tuple", [p[i]]]]))
    elif mode == "random":
        seq = [["int", draw(st.integers(-1, 6))] for _ in range(draw(st.integers(0, 6)))]
    return {"seq": seq}


@st.composite
def mesh_rank_cases(draw):
    p = list(draw(gen.perms(0, 4)))
    k = len(p)
    bits = (k + 1) ** 2
    r = draw(st.one_of(st.integers(0, 2**bits - 1), st.sampled_from([0, 1, 2**bits - 1, 2 ** (bits - 1)])))
    return {"p": p, "r": r}


def shard_levels(acc, shard, nshards, max_n):
    # one level per shard slot, longest first
    levels = list(range(max_n, -1, -1))
    for i, n in enumerate(levels):
        if i % nshards == shard:
            acc.record("level", check_level, n)
    for i, k in enumerate((0, 1, 2)):
        if (i + len(levels)) % nshards == shard:
            acc.record("mesh_level", check_mesh_level, k)


def shard_multisets(acc, shard, nshards, max_n):
    import itertools

    i = 0
    for n in range(1, max_n + 1):
        for ms in itertools.combinations_with_replacement(range(n), n):
            if i % nshards == shard:
                acc.record("std_multiset", check_std_multiset, list(ms))
            i += 1


def shard_generated(acc, shard, nshards, n_rank, n_std, n_hist, n_val, n_mesh, filler):
    # notations beyond the exhaustive lengths: every length 8..12, with the boundary length 10
    # (the last one printed in compact digit form) drawn twice as often
    lengths = st.sampled_from([8, 9, 10, 10, 11, 12])
    engine.hyp_run(acc, "notations", check_notations, lengths.flatmap(gen.perm_of).map(list), max(20, n_rank // 2), shard)
    for n in (8, 9, 10, 11, 12):
        acc.record("notations", check_notations, list(range(n)))
        acc.record("notations", check_notations, list(range(n - 1, -1, -1)))
    engine.hyp_run(acc, "big_rank", check_big_rank, big_rank_cases(), n_rank, shard)
    huge = st.fixed_dictionaries({"seq": st.lists(st.integers(-50, 400), min_size=1500, max_size=3000), "p": st.integers(150, 300).flatmap(gen.perm_of).map(list)})
    engine.hyp_run(acc, "huge", check_huge, huge, 2 if n_rank < 2000 else 8, shard)
    engine.hyp_run(acc, "standardise", check_standardise, seq_cases(), n_std, shard)
    engine.hyp_run(acc, "std_history", check_std_history, std_history_cases(filler), n_hist, shard)
    engine.hyp_run(acc, "validated", check_validated, validated_cases(), n_val, shard)
    engine.hyp_run(acc, "mesh_rank", check_mesh_rank, mesh_rank_cases(), n_mesh, shard)


# coverage-guided variants of the structured generators (thorough tier, pv/fuzz/target.py hyp:<name>)
FUZZ = {"standardise": ("standardise", seq_cases), "validated": ("validated", validated_cases)}


def run(acc, tier):
    engine.pmap(acc, shard_multisets, extra=((8,) if tier == "quick" else (10,)))
    engine.pmap(acc, shard_mesh_rank_light, extra=((3, [(4, 2), (5, 2)]) if tier == "quick" else (3, [(4, 3), (5, 3), (6, 2)])))
    if tier == "quick":
        engine.pmap(acc, shard_levels, extra=(7,))
        engine.pmap(acc, shard_generated, extra=(200, 300, 40, 150, 150, 40))
    else:
        engine.pmap(acc, shard_levels, extra=(8,))
        engine.pmap(acc, shard_generated, extra=(15000, 20000, 1500, 10000, 10000, 6000))
        engine.fuzz(acc, "hyp:standardise", CHECKS, 30000, max_len=2048)
    # per-perm notations are checked inside "level": report their number
    acc.note("perms_with_all_notations_checked", sum(math.factorial(k) for k in range((7 if tier == "quick" else 8) + 1)))

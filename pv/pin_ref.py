"""Order-theoretic reference model for pin words (no permuta import, no rationals).

A pin sequence is kept as two linear orders of point ids (x-order, y-order); id 0 is the
origin p_0, pin i has id i.  A numeral places an independent pin in the named quadrant
beyond all earlier pins; a direction letter places a pin that separates the previous pin
from all earlier ones, on the named side."""
import functools
import itertools

DIRS = "ULDR"
QUADS = "1234"


class NotAPinWord(ValueError):
    pass


def orders(word):
    xs, ys = [0], [0]
    last = None
    for n, ch in enumerate(word, start=1):
        if ch in QUADS:
            right, up = ch in "14", ch in "12"
            xs.append(n) if right else xs.insert(0, n)
            ys.append(n) if up else ys.insert(0, n)
        elif ch in DIRS:
            if last is None:
                raise NotAPinWord("direction letter first")
            if ch in "UD":
                # x strictly between the previous pin and all earlier points
                if xs[-1] == last:
                    xs.insert(len(xs) - 1, n)
                elif xs[0] == last:
                    xs.insert(1, n)
                else:
                    raise NotAPinWord("previous pin not separable horizontally")
                ys.append(n) if ch == "U" else ys.insert(0, n)
            else:
                if ys[-1] == last:
                    ys.insert(len(ys) - 1, n)
                elif ys[0] == last:
                    ys.insert(1, n)
                else:
                    raise NotAPinWord("previous pin not separable vertically")
                xs.append(n) if ch == "R" else xs.insert(0, n)
        else:
            raise NotAPinWord(f"bad letter {ch!r}")
        last = n
    return xs, ys


@functools.lru_cache(maxsize=200000)
def decode(word):
    xs, ys = orders(word)
    xs = [i for i in xs if i != 0]
    ys = [i for i in ys if i != 0]
    rank = {pid: r for r, pid in enumerate(ys)}
    return tuple(rank[pid] for pid in xs)


def quadrant(word, ind):
    """quadrant of pin p_(ind+1) (the pin of letter word[ind]) relative to the origin"""
    xs, ys = orders(word[: ind + 1])
    pid = ind + 1
    right = xs.index(pid) > xs.index(0)
    up = ys.index(pid) > ys.index(0)
    return {(True, True): "1", (False, True): "2", (False, False): "3", (True, False): "4"}[(right, up)]


def in_language(word):
    """the grammar: first letter a numeral; no two consecutive vertical (U/D) letters and no two
    consecutive horizontal (L/R) letters"""
    if not all(c in DIRS + QUADS for c in word):
        return False
    if word and word[0] not in QUADS:
        return False
    return not any((a in "UD" and b in "UD") or (a in "LR" and b in "LR") for a, b in zip(word, word[1:]))


def language(n):
    return ["".join(w) for w in itertools.product(QUADS + DIRS, repeat=n) if in_language("".join(w))]


def is_strict(word):
    return word == "" or (word[0] in QUADS and all(c in DIRS for c in word[1:]))


def factor(word):
    """numeral-led factors"""
    res, cur = [], ""
    for ch in word:
        if ch in QUADS and cur:
            res.append(cur)
            cur = ""
        cur += ch
    if cur:
        res.append(cur)
    return res


@functools.lru_cache(maxsize=None)
def words_of_perm_table(n):
    table = {}
    for w in language(n):
        table.setdefault(decode(w), set()).add(w)
    return table


def words_of_perm(sigma):
    return words_of_perm_table(len(sigma)).get(tuple(sigma), set())


def strict_occurrences(word, u, start=0):
    """start indices of the strict pin word u in word (Lemma 3.12): the pin at the start index
    lies in the quadrant named by u's numeral, and the following letters agree"""
    k = len(u)
    res = []
    for idx in range(start, len(word) - k + 1):
        if word[idx + 1 : idx + k] == u[1:] and quadrant(word, idx) == u[0]:
            res.append(idx)
    return res


def occurrences(word, u, with_gap=True):
    """Theorem 3.13: the numeral-led factors of u occur one after another in word; a factor
    whose occurrence starts at a direction letter must not touch the previous factor
    (with_gap=False drops that condition: the documented defect model F8)."""
    facs = factor(u)
    out = []

    def rec(i, j, res):
        if j == len(facs):
            out.append(tuple(res))
            return
        if i >= len(word):
            return
        for o in strict_occurrences(word, facs[j], i):
            if with_gap and j > 0 and word[o] in DIRS and o == i:
                continue
            res.append(o)
            rec(o + len(facs[j]), j + 1, res)
            res.pop()

    rec(0, 0, [])
    return out


def m_language(n):
    """direction words with alternating vertical / horizontal letters"""
    return [
        "".join(w)
        for w in itertools.product(DIRS, repeat=n)
        if not any((a in "UD" and b in "UD") or (a in "LR" and b in "LR") for a, b in zip(w, w[1:]))
    ]


def m_to_sp(mword):
    """first two letters (one vertical, one horizontal, either order) name the quadrant"""
    first = set(mword[:2])
    num = {frozenset("RU"): "1", frozenset("LU"): "2", frozenset("LD"): "3", frozenset("RD"): "4"}[frozenset(first)]
    return num + mword[2:]

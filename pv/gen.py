"""Hypothesis strategies.  Everything is built by construction and is JSON-serialisable:
a permutation is a list of ints, a mesh pattern is [perm, [[x, y], ...]] with sorted cells."""
from hypothesis import strategies as st


def perms(min_size=0, max_size=6):
    return st.integers(min_size, max_size).flatmap(lambda n: st.permutations(list(range(n))))


def perm_of(n):
    return st.permutations(list(range(n)))


@st.composite
def shadings(draw, k, mode=None):
    """A subset of the (k+1)^2 cells; density drawn first so that sparse, dense, full
    rows/columns all occur."""
    cells = [(x, y) for x in range(k + 1) for y in range(k + 1)]
    mode = mode or draw(st.sampled_from(["sparse", "half", "dense", "lines", "empty", "full"]))
    if mode == "empty":
        chosen = []
    elif mode == "full":
        chosen = cells
    elif mode == "purelines":
        cols = draw(st.sets(st.integers(0, k), max_size=2))
        rows = draw(st.sets(st.integers(0, k), max_size=2))
        chosen = [c for c in cells if c[0] in cols or c[1] in rows]
    elif mode == "lines":
        cols = draw(st.sets(st.integers(0, k), max_size=k + 1))
        rows = draw(st.sets(st.integers(0, k), max_size=k + 1))
        extra = draw(st.sets(st.sampled_from(cells), max_size=2))
        chosen = [c for c in cells if c[0] in cols or c[1] in rows or c in extra]
    else:
        prob = {"sparse": 0.15, "half": 0.5, "dense": 0.85}[mode]
        bits = draw(st.lists(st.floats(0, 1, allow_nan=False), min_size=len(cells), max_size=len(cells)))
        chosen = [c for c, b in zip(cells, bits) if b < prob]
    return sorted([list(c) for c in chosen])


@st.composite
def mesh_patterns(draw, min_size=0, max_size=3, mode=None):
    p = draw(perms(min_size, max_size))
    sh = draw(shadings(len(p), mode))
    return [list(p), sh]


@st.composite
def planted(draw, max_p=5, max_t=10, min_p=0):
    """(pattern, target) where the target is built around a planted occurrence of the
    pattern (so occurrences exist), with extra points inserted at random places."""
    p = draw(perms(min_p, max_p))
    extra = draw(st.integers(0, max_t - len(p)))
    # build by successive insertion of points with fractional coordinates
    xs = [float(i) for i in range(len(p))]
    ys = [float(v) for v in p]
    for _ in range(extra):
        # choose a gap in x-order and a gap in y-order
        gx = draw(st.integers(0, len(xs)))
        gy = draw(st.integers(0, len(ys)))
        sx = sorted(xs)
        sy = sorted(ys)
        nx = (sx[gx - 1] if gx > 0 else sx[0] - 2 if sx else 0.0)
        nx2 = sx[gx] if gx < len(sx) else (sx[-1] + 2 if sx else 2.0)
        ny = (sy[gy - 1] if gy > 0 else sy[0] - 2 if sy else 0.0)
        ny2 = sy[gy] if gy < len(sy) else (sy[-1] + 2 if sy else 2.0)
        xs.append((nx + nx2) / 2)
        ys.append((ny + ny2) / 2)
    order = sorted(range(len(xs)), key=lambda i: xs[i])
    yrank = {i: r for r, i in enumerate(sorted(range(len(ys)), key=lambda i: ys[i]))}
    t = [yrank[i] for i in order]
    return [list(p), t]


@st.composite
def pattern_target(draw, max_p=5, max_t=9):
    """Mixture: planted occurrences, independent random pairs, near-monotone targets."""
    which = draw(st.sampled_from(["planted", "planted", "random", "random", "equal"]))
    if which == "planted":
        return draw(planted(max_p, max_t))
    if which == "equal":
        p = draw(perms(0, max_p))
        return [list(p), list(p)]
    p = draw(perms(0, max_p))
    t = draw(perms(0, max_t))
    return [list(p), list(t)]


COLOUR_VALUES = [0, 1, 2, None, "a"]  # colours are arbitrary comparable labels: ints, None, strings


def colours(n):
    return st.lists(st.sampled_from(COLOUR_VALUES), min_size=n, max_size=n)


def perm_sets(min_perms=1, max_perms=4, min_len=1, max_len=5):
    return st.lists(perms(min_len, max_len), min_size=min_perms, max_size=max_perms)

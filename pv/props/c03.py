"""C03 - mesh, bivincular, vincular and covincular occurrences in permutations are exact."""
import itertools

from hypothesis import strategies as st

from permuta import BivincularPatt, CovincularPatt, MeshPatt, Perm, VincularPatt

from .. import engine, gen, lib
from .. import oracle as ref
from ..engine import BAD, OK

META = {
    "level": "exploration",
    "rule": (
        "exhaustive: every mesh pattern of length <= 2 (all 2^((k+1)^2) shadings) against every permutation "
        "below the tier's bound; every (pattern, adjacent-index set, adjacent-value set) of length <= 3 "
        "as Bivincular/Vincular/Covincular/equivalent MeshPatt; "
        "generated: mesh patterns up to length 4 against permutations up to length 8 with a density mixture, "
        "mixed lists of classical and mesh-type patterns, overlapping lazy enumerations with one pattern object. Non-trivial: classical occurrences of the underlying "
        "pattern exist and the shading / adjacency removes some but not all of them. Distinct = case content."
        " Light sweep: mesh patterns of length 2-3 with one or two shaded cells in every target of a length (to 8 quick, 9 thorough); non-trivial there = the shading removes some but not all classical occurrences."
    ),
    "assumptions": [
        "mesh oracle: classical occurrences (combinations) filtered by counting the cell of every other point",
        "bivincular oracle is independent of shadings: consecutive positions / values and first/last, smallest/largest anchoring tested directly on the occurrence",
        "occurrence order is not asserted for mesh-type patterns (the statement fixes the set); multiplicity is",
    ],
}


def biv_occ(p, idx, val, t):
    """Occurrences of the bivincular pattern by its adjacency semantics."""
    k, n = len(p), len(t)
    res = []
    for c in ref.occ(p, t):
        if k == 0:
            if (idx or val) and n != 0:
                continue
            res.append(c)
            continue
        ok = True
        for i in idx:
            if i == 0:
                ok = ok and c[0] == 0
            elif i == k:
                ok = ok and c[k - 1] == n - 1
            else:
                ok = ok and c[i] == c[i - 1] + 1
        w = sorted(t[j] for j in c)
        for j in val:
            if j == 0:
                ok = ok and w[0] == 0
            elif j == k:
                ok = ok and w[k - 1] == n - 1
            else:
                ok = ok and w[j] == w[j - 1] + 1
        if ok:
            res.append(c)
    return res


def selftest():
    # the two formulations of a bivincular pattern agree in the oracle itself
    for p in ref.perms(2):
        for idx in ([], [0], [1], [2], [0, 2]):
            for val in ([], [1], [0, 2]):
                sh = lib.biv_shading(2, set(idx), set(val))
                for t in ref.perms(4):
                    if biv_occ(p, idx, val, t) != ref.mesh_occ(p, sh, t):
                        raise engine.HarnessError(f"oracle: adjacency and shading semantics differ {p} {idx} {val} {t}")
    if ref.mesh_occ((1, 0, 2), {(1, 2), (2, 2), (2, 3)}, (3, 1, 0, 2, 4)) != [(0, 1, 4), (0, 2, 4), (0, 3, 4), (1, 2, 3)]:
        raise engine.HarnessError("oracle mesh_occ docstring example failed")


def _compare(M, T, expected, tag):
    got = list(M.occurrences_in(T))
    if len(set(got)) != len(got):
        return BAD(tag + "_repetition", {"got": got})
    if sorted(got) != sorted(expected):
        return BAD(tag + "_occurrences", {"got": sorted(got), "expected": expected})
    if any(not isinstance(o, tuple) for o in got):
        return BAD(tag + "_type", {"got": got})
    n = len(expected)
    has = n > 0
    for name, g, want in (
        ("contains", T.contains(M), has),
        ("avoids", T.avoids(M), not has),
        ("avoids_set", T.avoids_set([M]), not has),
        ("in", M in T, has),
        ("count_of", T.count_occurrences_of(M), n),
        ("count_in", M.count_occurrences_in(T), n),
        ("contained_in", M.contained_in(T), has),
        ("avoided_by", M.avoided_by(T), not has),
        ("occurrences_of", sorted(T.occurrences_of(M)), sorted(expected)),
    ):
        if g != want:
            return BAD(tag + "_" + name, {"got": g, "want": want})
    return None


def check_mesh(case):
    (p, sh), t = case
    p, t = tuple(p), tuple(t)
    shs = frozenset(tuple(c) for c in sh)
    expected = ref.mesh_occ(p, shs, t)
    classical = ref.occ(p, t)
    M = MeshPatt(Perm(p), [tuple(c) for c in sh])
    bad = _compare(M, Perm(t), expected, "mesh")
    if bad:
        return bad
    # the shading is an Iterable of cells: every container form must denote the same pattern
    cells = [tuple(c) for c in sh]
    for name, form in (("iter", iter(cells)), ("generator", (c for c in cells)), ("set", set(cells)), ("frozenset", shs), ("reversed_with_duplicates", list(reversed(cells)) + cells[:1])):
        other = MeshPatt(Perm(p), form)
        if other != M or hash(other) != hash(M) or sorted(other.occurrences_in(Perm(t))) != sorted(expected):
            return BAD("mesh_shading_container_" + name, {"got": sorted(other.shading), "want": sorted(shs)})
    nt = 0 < len(expected) < len(classical)
    lab = "removed_some" if nt else ("removed_all" if classical and not expected else ("kept_all" if classical else "no_classical_occurrence"))
    return OK(nt, lab)


def check_biv(case):
    p, idx, val, t = tuple(case["p"]), sorted(case["idx"]), sorted(case["val"]), tuple(case["t"])
    k = len(p)
    expected = biv_occ(p, idx, val, t)
    classical = ref.occ(p, t)
    T = Perm(t)
    B = BivincularPatt(Perm(p), idx, val)
    bad = _compare(B, T, expected, "biv")
    if bad:
        return bad
    # requirements read back: full columns / full rows of the equivalent shading
    sh = lib.biv_shading(k, set(idx), set(val))
    want_req = (
        [x for x in range(k + 1) if all((x, y) in sh for y in range(k + 1))],
        [y for y in range(k + 1) if all((x, y) in sh for x in range(k + 1))],
    )
    if B.get_adjacent_requirements() != want_req:
        return BAD("biv_requirements", {"got": B.get_adjacent_requirements(), "want": want_req})
    M = MeshPatt(Perm(p), sh)
    bad = _compare(M, T, expected, "biv_as_mesh")
    if bad:
        return bad
    # the requirements are Iterable[int]: every container form must give the same pattern
    forms = (
        ("tuple", tuple(idx), tuple(val)),
        ("set", set(idx), set(val)),
        ("iter", iter(idx), iter(val)),
        ("generator", (i for i in idx), (v for v in val)),
        ("map", map(int, idx), map(int, val)),
        ("reversed", reversed(idx), reversed(val)),
    )
    for name, ci, cv in forms:
        other = BivincularPatt(Perm(p), ci, cv)
        if other != B or other.shading != sh or sorted(other.occurrences_in(T)) != sorted(expected):
            return BAD("biv_container_" + name, {"got_shading": sorted(other.shading), "want_shading": sorted(sh)})
    if not val and VincularPatt(Perm(p), iter(idx)).shading != sh:
        return BAD("vincular_container_iter", {})
    if not idx and CovincularPatt(Perm(p), (v for v in val)).shading != sh:
        return BAD("covincular_container_generator", {})
    if not val:
        bad = _compare(VincularPatt(Perm(p), idx), T, expected, "vincular")
        if bad:
            return bad
    if not idx:
        bad = _compare(CovincularPatt(Perm(p), val), T, expected, "covincular")
        if bad:
            return bad
    nt = 0 < len(expected) < len(classical)
    return OK(nt, "biv_removed_some" if nt else "biv_other")


def check_mixed(case):
    t = tuple(case["t"])
    T = Perm(t)
    rs = [lib.to_ref(b) for b in case["patts"]]
    ls = [lib.to_lib(b) for b in case["patts"]]
    flags = [ref.patt_contains(t, r) for r in rs]
    if T.contains(*ls) != all(flags):
        return BAD("mixed_contains", {"flags": flags})
    if T.avoids(*ls) == any(flags):
        return BAD("mixed_avoids", {"flags": flags})
    if T.avoids_set(ls) == any(flags) or T.avoids_set(iter(ls)) == any(flags):
        return BAD("mixed_avoids_set", {"flags": flags})
    kinds = {type(x).__name__ for x in ls}
    return OK(len(kinds) >= 2 and any(flags) and not all(flags), "mixed")


def check_lazy(case):
    """Overlapping lazy enumerations with the SAME pattern object in the SAME permutation
    object, interleaved with counting / boolean queries: each must report the full set."""
    patt, t = lib.to_lib(case["patt"]), tuple(case["t"])
    r = lib.as_mesh_ref(case["patt"])
    expected = sorted(ref.mesh_occ(r[0], r[1], t))
    T = Perm(t)
    its = [iter(patt.occurrences_in(T)), iter(T.occurrences_of(patt)), iter(patt.occurrences_in(T))]
    got = [[], [], []]
    done = [False, False, False]
    for step, a in enumerate(case["sched"]):
        if a >= 3:
            # a full query in the middle of the open enumerations
            if a == 3 and T.count_occurrences_of(patt) != len(expected):
                return BAD("lazy_count_in_between", {"step": step, "want": len(expected)})
            if a == 4 and T.contains(patt) != bool(expected):
                return BAD("lazy_contains_in_between", {"step": step})
            if a == 5 and sorted(patt.occurrences_in(T)) != expected:
                return BAD("lazy_list_in_between", {"step": step})
            continue
        if done[a]:
            continue
        try:
            got[a].append(next(its[a]))
        except StopIteration:
            done[a] = True
    for a in range(3):
        got[a].extend(its[a])
        if sorted(got[a]) != expected or len(set(got[a])) != len(got[a]):
            return BAD("lazy_overlapping_enumerations", {"enumeration": a, "got": sorted(got[a]), "expected": expected})
    return OK(len(expected) >= 2, "lazy")


def check_mesh_light(case):
    """A mesh pattern with one or two shaded cells in a target several points longer: occurrence
    list, count and the boolean entry points against the reference.  Cheap, so every target of a
    length is swept (a pruning rule in the search needs room - spare points - to go wrong)."""
    (p, sh), t = case
    p, t = tuple(p), tuple(t)
    shs = frozenset(tuple(c) for c in sh)
    expected = ref.mesh_occ(p, shs, t)
    M, T = MeshPatt(Perm(p), shs), Perm(t)
    got = sorted(M.occurrences_in(T))
    if got != expected:
        return BAD("light_mesh_occurrences", {"pattern": [list(p), sorted(shs)], "target": list(t), "got": got, "expected": expected})
    has = bool(expected)
    if T.contains(M) != has or T.avoids(M) == has or M.contained_in(T) != has or T.count_occurrences_of(M) != len(expected):
        return BAD("light_mesh_entry_points", {"pattern": [list(p), sorted(shs)], "target": list(t), "occurrences": len(expected)})
    return OK(has and len(expected) < len(ref.occ(p, t)), "light_removed_some" if has else "light_none", key=f"{p}|{sorted(shs)}|{t}")


def shard_mesh_light(acc, shard, nshards, plan):
    """plan: (pattern length, number of shaded cells, target lengths)"""
    i = 0
    for k, ncells, tlens in plan:
        cells = [(x, y) for x in range(k + 1) for y in range(k + 1)]
        targets = [t for n in tlens for t in ref.perms(n)]
        for p in ref.perms(k):
            for sh in itertools.combinations(cells, ncells):
                if i % nshards == shard:
                    for t in targets:
                        acc.record("mesh_light", check_mesh_light, [[list(p), [list(c) for c in sh]], list(t)])
                i += 1


CHECKS = {"mesh": check_mesh, "biv": check_biv, "mixed": check_mixed, "lazy": check_lazy, "mesh_light": check_mesh_light}


# ------------------------------------------------------------------ generators
def _all_shadings(k):
    cells = [(x, y) for x in range(k + 1) for y in range(k + 1)]
    for mask in range(1 << len(cells)):
        yield [list(c) for i, c in enumerate(cells) if mask >> i & 1]


def shard_mesh_exhaustive(acc, shard, nshards, max_p, max_t):
    i = 0
    targets = list(ref.perms_upto(max_t))
    for k in range(max_p + 1):
        for p in ref.perms(k):
            for sh in _all_shadings(k):
                if i % nshards == shard:
                    for t in targets:
                        acc.record("mesh", check_mesh, [[list(p), sh], list(t)])
                i += 1


def _subsets(n):
    for mask in range(1 << n):
        yield [i for i in range(n) if mask >> i & 1]


def shard_biv_exhaustive(acc, shard, nshards, max_p, max_t):
    i = 0
    targets = list(ref.perms_upto(max_t))
    for k in range(max_p + 1):
        for p in ref.perms(k):
            for idx in _subsets(k + 1):
                for val in _subsets(k + 1):
                    if i % nshards == shard:
                        for t in targets:
                            acc.record("biv", check_biv, {"p": list(p), "idx": idx, "val": val, "t": list(t)})
                    i += 1


@st.composite
def mesh_cases(draw):
    p, t = draw(gen.planted(4, 8))
    sh = draw(gen.shadings(len(p)))
    return [[p, sh], t]


@st.composite
def biv_cases(draw):
    p, t = draw(gen.planted(4, 8))
    k = len(p)
    idx = sorted(draw(st.sets(st.integers(0, k), max_size=2)))
    val = sorted(draw(st.sets(st.integers(0, k), max_size=2)))
    which = draw(st.integers(0, 3))
    if which == 0:
        idx = []
    elif which == 1:
        val = []
    return {"p": p, "idx": idx, "val": val, "t": t}


@st.composite
def structured_biv_cases(draw):
    """Longer patterns (2-5 points) with structured adjacency sets - anchors at both ends of the
    positions and / or the values, exactly the inner columns (consecutive patterns), full sets -
    and a target grown from the pattern by adding points only in cells the requirements leave
    unshaded, so that the planted occurrence survives (occurrences exist although anchors are
    demanding)."""
    k = draw(st.integers(2, 5))
    p = list(draw(gen.perm_of(k)))

    def req():
        mode = draw(st.sampled_from(["none", "ends", "ends", "one_end", "inner", "random", "full"]))
        if mode == "none":
            return []
        if mode == "ends":
            return sorted({0, k} | draw(st.sets(st.integers(0, k), max_size=1)))
        if mode == "one_end":
            return sorted({draw(st.sampled_from([0, k]))} | draw(st.sets(st.integers(0, k), max_size=2)))
        if mode == "inner":
            return list(range(1, k))
        if mode == "full":
            return list(range(k + 1))
        return sorted(draw(st.sets(st.integers(0, k), max_size=k + 1)))

    idx, val = req(), req()
    cols = [x for x in range(k + 1) if x not in idx]
    rows = [y for y in range(k + 1) if y not in val]
    pts = {(64 * i, 64 * v) for i, v in enumerate(p)}
    if cols and rows:
        for _ in range(draw(st.integers(0, 5))):
            x, y = draw(st.sampled_from(cols)), draw(st.sampled_from(rows))
            fx = 64 * (x - 1) + draw(st.integers(1, 63))
            fy = 64 * (y - 1) + draw(st.integers(1, 63))
            if all(fx != a and fy != b for a, b in pts):
                pts.add((fx, fy))
    order = sorted(pts)
    ys = sorted(b for _, b in order)
    t = [ys.index(b) for _, b in order]
    if draw(st.integers(0, 5)) == 0:
        # near miss: one more point anywhere (may land in a shaded cell)
        i, v = draw(st.integers(0, len(t))), draw(st.integers(0, len(t)))
        t = [w + 1 if w >= v else w for w in t]
        t.insert(i, v)
    return {"p": p, "idx": idx, "val": val, "t": t}


@st.composite
def json_patterns(draw, max_len=3):
    kind = draw(st.sampled_from(["perm", "perm", "mesh", "biv", "vin", "cov"]))
    if kind == "perm":
        return list(draw(gen.perms(0, max_len + 1)))
    if kind == "mesh":
        return draw(gen.mesh_patterns(0, max_len, "sparse" if draw(st.booleans()) else None))
    p = list(draw(gen.perms(0, max_len)))
    k = len(p)
    idx = sorted(draw(st.sets(st.integers(0, k), max_size=2)))
    val = sorted(draw(st.sets(st.integers(0, k), max_size=2)))
    if kind == "biv":
        return {"t": "biv", "p": p, "idx": idx, "val": val}
    if kind == "vin":
        return {"t": "vin", "p": p, "idx": idx}
    return {"t": "cov", "p": p, "val": val}


@st.composite
def mixed_cases(draw):
    t = list(draw(gen.perms(0, 7)))
    patts = draw(st.lists(json_patterns(), min_size=1, max_size=4))
    return {"t": t, "patts": patts}


@st.composite
def lazy_cases(draw):
    p, t = draw(gen.planted(3, 7))
    k = len(p)
    kind = draw(st.sampled_from(["perm", "mesh", "mesh", "vin", "biv"]))
    if kind == "perm":
        patt = p
    elif kind == "mesh":
        patt = [p, draw(gen.shadings(k, draw(st.sampled_from(["sparse", "empty", "half"]))))]
    elif kind == "vin":
        patt = {"t": "vin", "p": p, "idx": sorted(draw(st.sets(st.integers(0, k), max_size=1)))}
    else:
        patt = {"t": "biv", "p": p, "idx": sorted(draw(st.sets(st.integers(0, k), max_size=1))), "val": sorted(draw(st.sets(st.integers(0, k), max_size=1)))}
    return {"patt": patt, "t": t, "sched": draw(st.lists(st.integers(0, 5), max_size=14))}


@st.composite
def long_mesh_cases(draw):
    p, t = draw(gen.planted(3, 16))
    return [[p, draw(gen.shadings(len(p), draw(st.sampled_from(["sparse", "sparse", "lines", "half"]))))], t]


def shard_generated(acc, shard, nshards, n_mesh, n_biv, n_mixed):
    engine.hyp_run(acc, "mesh", check_mesh, long_mesh_cases(), max(10, n_mesh // 5), shard)
    engine.hyp_run(acc, "lazy", check_lazy, lazy_cases(), n_mixed, shard)
    engine.hyp_run(acc, "mesh", check_mesh, mesh_cases(), n_mesh, shard)
    engine.hyp_run(acc, "biv", check_biv, biv_cases(), n_biv, shard)
    engine.hyp_run(acc, "biv", check_biv, structured_biv_cases(), n_biv, shard)
    engine.hyp_run(acc, "mixed", check_mixed, mixed_cases(), n_mixed, shard)


def run(acc, tier):
    if tier == "quick":
        engine.pmap(acc, shard_mesh_light, extra=([(2, 1, (6, 7, 8)), (2, 2, (7,)), (3, 1, (7,))],))
    else:
        engine.pmap(acc, shard_mesh_light, extra=([(2, 1, (6, 7, 8, 9)), (2, 2, (7, 8)), (3, 1, (7, 8)), (3, 2, (7,))],))
    if tier == "quick":
        engine.pmap(acc, shard_mesh_exhaustive, extra=(2, 5))
        engine.pmap(acc, shard_biv_exhaustive, extra=(3, 5))
        engine.pmap(acc, shard_generated, extra=(250, 150, 100))
        sub = "all shadings of all patterns of length <= 2 x all permutations of length <= 5; all adjacency sets, patterns <= 3, permutations <= 5"
    else:
        engine.pmap(acc, shard_mesh_exhaustive, extra=(2, 6))
        engine.pmap(acc, shard_biv_exhaustive, extra=(3, 6))
        engine.pmap(acc, shard_generated, extra=(20000, 10000, 8000))
        sub = "all shadings of all patterns of length <= 2 x all permutations of length <= 6; all adjacency sets, patterns <= 3, permutations <= 6"
        engine.fuzz(acc, "mesh", CHECKS, 150000, corpus_seeds=[[2, 7, 3, 5, 9, 1, 8, 2, 6, 0, 0, 1, 0, 0, 0, 2, 0, 0]])
    META["extra_cov"] = {"exhaustive_subdomain": sub}

"""Reference model on plain tuples, written from the mathematical definitions.

Imports nothing from permuta.  Permutations are tuples over range(n) (0-based);
a mesh pattern is (perm, frozenset of cells (x, y)) with 0 <= x, y <= len(perm);
an occurrence is a strictly increasing tuple of indices.
"""
import functools
import itertools
import math


# ------------------------------------------------------------------ basics
def std(seq):
    """Standardisation: ranks, ties broken left to right."""
    order = sorted(range(len(seq)), key=lambda i: (seq[i], i))
    res = [0] * len(seq)
    for rank, i in enumerate(order):
        res[i] = rank
    return tuple(res)


def is_perm(t):
    try:
        return sorted(t) == list(range(len(t)))
    except TypeError:
        return False


def perms(n):
    return itertools.permutations(range(n))


def perms_upto(n, start=0):
    for k in range(start, n + 1):
        yield from itertools.permutations(range(k))


def inverse(p):
    r = [0] * len(p)
    for i, v in enumerate(p):
        r[v] = i
    return tuple(r)


def _isomorphic(p_by_value, t, c):
    # p_by_value: positions of p sorted by value; values of t at those positions must increase
    prev = -1
    for pos in p_by_value:
        v = t[c[pos]]
        if v <= prev:
            return False
        prev = v
    return True


def occ(p, t):
    """All occurrences of classical pattern p in t, lexicographic order of index tuples."""
    k = len(p)
    if k > len(t):
        return []
    byval = inverse(p)
    return [c for c in itertools.combinations(range(len(t)), k) if _isomorphic(byval, t, c)]


def contains(t, p):
    k = len(p)
    if k > len(t):
        return False
    byval = inverse(p)
    for c in itertools.combinations(range(len(t)), k):
        if _isomorphic(byval, t, c):
            return True
    return False


def cell_of(c, cvals_sorted, i, v):
    """Cell (x, y) of the point (i, v) in the grid drawn through occurrence c."""
    x = sum(1 for j in c if j < i)
    y = sum(1 for w in cvals_sorted if w < v)
    return (x, y)


def mesh_occ(p, sh, t):
    """Occurrences of mesh pattern (p, sh) in permutation t."""
    if not sh:
        return occ(p, t)
    res = []
    for c in occ(p, t):
        cset = set(c)
        vals = sorted(t[i] for i in c)
        ok = True
        for i, v in enumerate(t):
            if i in cset:
                continue
            if cell_of(c, vals, i, v) in sh:
                ok = False
                break
        if ok:
            res.append(c)
    return res


def mesh_contains(t, p, sh):
    if not sh:
        return contains(t, p)
    k = len(p)
    if k > len(t):
        return False
    byval = inverse(p)
    for c in itertools.combinations(range(len(t)), k):
        if not _isomorphic(byval, t, c):
            continue
        cset = set(c)
        vals = sorted(t[i] for i in c)
        for i, v in enumerate(t):
            if i in cset:
                continue
            if cell_of(c, vals, i, v) in sh:
                break
        else:
            return True
    return False


def patt_contains(t, patt):
    """patt is a perm tuple or a (perm, shading) pair."""
    if is_mesh(patt):
        return mesh_contains(t, patt[0], patt[1])
    return contains(t, patt)


def is_mesh(patt):
    return len(patt) == 2 and isinstance(patt[1], (set, frozenset))


def avoids_all(t, basis):
    return not any(patt_contains(t, b) for b in basis)


_AV_CACHE = {}


def av(basis, n):
    """Av_n(basis) by filtering S_n; basis: iterable of perms / (perm, shading) pairs."""
    key = (frozenset(_norm(b) for b in basis), n)
    res = _AV_CACHE.get(key)
    if res is None:
        bl = sorted(key[0], key=lambda b: (len(b[0]), b[0], sorted(b[1])))
        res = [t for t in perms(n) if not any(mesh_contains(t, p, sh) for p, sh in bl)]
        if len(_AV_CACHE) > 4000:
            _AV_CACHE.clear()
        _AV_CACHE[key] = res
    return res


def _norm(b):
    if is_mesh(b):
        return (tuple(b[0]), frozenset(tuple(c) for c in b[1]))
    return (tuple(b), frozenset())


# ------------------------------------------------------------------ symmetries
# The eight symmetries of the square acting on the point set {(i, v)} of a permutation
# of length n drawn in [0, n-1]^2, as affine maps (x, y) -> ...   Names: composition
# words over r (reverse), c (complement), i (inverse).
def _affine(name, n1):
    """Return f(x, y) for the named symmetry where n1 = side length (max coordinate)."""
    return {
        "id": lambda x, y: (x, y),
        "r": lambda x, y: (n1 - x, y),
        "c": lambda x, y: (x, n1 - y),
        "i": lambda x, y: (y, x),
        "rc": lambda x, y: (n1 - x, n1 - y),
        "rot": lambda x, y: (y, n1 - x),  # rotate clockwise by 90 degrees
        "rot3": lambda x, y: (n1 - y, x),  # counter-clockwise
        "anti": lambda x, y: (n1 - y, n1 - x),
    }[name]


SYMS = ("id", "r", "c", "i", "rc", "rot", "rot3", "anti")


def sym_perm(name, p):
    n = len(p)
    f = _affine(name, n - 1)
    pts = sorted(f(i, v) for i, v in enumerate(p))
    return tuple(v for _, v in pts)


def sym_mesh(name, p, sh):
    """Cells are mapped through their centres (x - 1/2, y - 1/2); doubled coordinates."""
    n = len(p)
    # doubled coordinates: point i -> 2i, cell x centre -> 2x - 1; side length 2(n-1)
    f = _affine(name, 2 * (n - 1))
    new_sh = set()
    for x, y in sh:
        cx, cy = f(2 * x - 1, 2 * y - 1)
        new_sh.add(((cx + 1) // 2, (cy + 1) // 2))
    return sym_perm(name, p), frozenset(new_sh)


def orbit_perm(p):
    """Close {p} under reverse and inverse (they generate the dihedral group)."""
    seen = {tuple(p)}
    todo = [tuple(p)]
    while todo:
        q = todo.pop()
        for g in ("r", "i"):
            x = sym_perm(g, q)
            if x not in seen:
                seen.add(x)
                todo.append(x)
    return seen


def orbit_mesh(p, sh):
    start = (tuple(p), frozenset(sh))
    seen = {start}
    todo = [start]
    while todo:
        q = todo.pop()
        for g in ("r", "i"):
            x = sym_mesh(g, q[0], q[1])
            if x not in seen:
                seen.add(x)
                todo.append(x)
    return seen


def orbit_set(perm_set):
    start = frozenset(tuple(p) for p in perm_set)
    seen = {start}
    todo = [start]
    while todo:
        q = todo.pop()
        for g in ("r", "i"):
            x = frozenset(sym_perm(g, p) for p in q)
            if x not in seen:
                seen.add(x)
                todo.append(x)
    return seen


# ------------------------------------------------------------------ order / rank
def perm_key(p):
    return (len(p), tuple(p))


def rank(p):
    """Index of p in (length, lexicographic) order of all permutations."""
    n = len(p)
    r = sum(math.factorial(k) for k in range(n))
    return r + rank_in_length(p)


def rank_in_length(p):
    n = len(p)
    r = 0
    for i in range(n):
        smaller = sum(1 for j in range(i + 1, n) if p[j] < p[i])
        r += smaller * math.factorial(n - 1 - i)
    return r


# ------------------------------------------------------------------ structure
def is_interval(p, i, j):
    """positions i..j (inclusive) hold a set of consecutive values"""
    seg = p[i : j + 1]
    return max(seg) - min(seg) == j - i


def proper_intervals(p):
    """All (start, length) with 2 <= length <= n-1 forming an interval."""
    n = len(p)
    res = []
    for length in range(2, n):
        for i in range(0, n - length + 1):
            if is_interval(p, i, i + length - 1):
                res.append((i, length))
    return res


def is_simple(p):
    return not proper_intervals(p)


def is_sum_decomposable(p):
    n = len(p)
    return any(sorted(p[:k]) == list(range(k)) for k in range(1, n))


def is_skew_decomposable(p):
    n = len(p)
    return any(sorted(p[:k]) == list(range(n - k, n)) for k in range(1, n))


def direct_sum(*ps):
    res = []
    for p in ps:
        s = len(res)
        res.extend(v + s for v in p)
    return tuple(res)


def skew_sum(*ps):
    pts = []
    tot = sum(len(p) for p in ps)
    off = tot
    res = []
    for p in ps:
        off -= len(p)
        res.extend(v + off for v in p)
    return tuple(res)


def lis(p):
    best = [1] * len(p)
    for j in range(len(p)):
        for i in range(j):
            if p[i] < p[j] and best[i] + 1 > best[j]:
                best[j] = best[i] + 1
    return max(best, default=0)


def lds(p):
    return lis(tuple(-v for v in p))


def delete_point(p, i):
    return std(p[:i] + p[i + 1 :])


def subperm(p, idxs):
    return std(tuple(p[i] for i in idxs))


@functools.lru_cache(maxsize=None)
def all_perms_tuple(n):
    return tuple(perms(n))


# ------------------------------------------------------------------ mesh pattern inside mesh pattern
def sub_mesh(p, sh, idxs):
    """Mesh pattern induced by the points at sorted indices idxs of (p, sh): a cell of the
    induced pattern is shaded iff every cell of its region in the original is shaded and
    the region contains no point of the original."""
    idxs = sorted(idxs)
    n, k = len(p), len(idxs)
    q = std(tuple(p[i] for i in idxs))
    vals = sorted(p[i] for i in idxs)
    col_lo = [-1] + idxs  # region x: original indices strictly between col_lo[x] and col_hi[x]
    col_hi = idxs + [n]
    row_lo = [-1] + vals
    row_hi = vals + [n]
    new = set()
    for x in range(k + 1):
        for y in range(k + 1):
            cells_ok = all(
                (cx, cy) in sh
                for cx in range(col_lo[x] + 1, col_hi[x] + 1)
                for cy in range(row_lo[y] + 1, row_hi[y] + 1)
            )
            if not cells_ok:
                continue
            has_point = any(
                row_lo[y] < p[i] < row_hi[y] for i in range(col_lo[x] + 1, col_hi[x])
            )
            if not has_point:
                new.add((x, y))
    return q, frozenset(new)


def mesh_in_mesh_occ(a, ash, b, bsh):
    """Occurrences of mesh pattern (a, ash) inside mesh pattern (b, bsh)."""
    return [o for o in occ(a, b) if frozenset(ash) <= sub_mesh(b, bsh, o)[1]]


def mesh_in_mesh(a, ash, b, bsh):
    return bool(mesh_in_mesh_occ(a, ash, b, bsh))


def minimal_mesh(patts):
    """Minimal elements (w.r.t. mesh containment) of a collection of (perm, shading)."""
    uniq = []
    for m in patts:
        if m not in uniq:
            uniq.append(m)
    return [m for m in uniq if not any(o != m and mesh_in_mesh(o[0], o[1], m[0], m[1]) for o in uniq)]


def av_incremental(basis, n, _cache={}):
    """Av_n(basis) for a CLASSICAL basis, built level by level: a class of classical patterns is
    downward closed, so every avoider of length n is a one-point extension (new maximum inserted
    at some position) of an avoider of length n-1.  Different algorithm from `av` (which filters
    all of S_n); cross-checked against it in C02's self-test."""
    key = (tuple(sorted(tuple(b) for b in basis)), n)
    if key in _cache:
        return _cache[key]
    bl = [tuple(b) for b in basis]
    if n == 0:
        res = [()] if not any(len(b) == 0 for b in bl) else []
    else:
        prev = av_incremental(basis, n - 1)
        res = []
        for t in prev:
            for i in range(n):
                cand = t[:i] + (n - 1,) + t[i:]
                # only occurrences using the new maximum can be new
                if not any(_contains_using(cand, b, i) for b in bl):
                    res.append(cand)
        res.sort()
    if len(_cache) > 2000:
        _cache.clear()
    _cache[key] = res
    return res


def _contains_using(t, p, pos):
    """does t contain p in an occurrence that uses position pos?"""
    k = len(p)
    if k > len(t):
        return False
    byval = inverse(p)
    others = [i for i in range(len(t)) if i != pos]
    for c in itertools.combinations(others, k - 1):
        cc = tuple(sorted(c + (pos,)))
        if _isomorphic(byval, t, cc):
            return True
    return False

"""C08 - equality, hashing and ordering of permutations, patterns and bases are coherent."""
import gc
import itertools

from hypothesis import strategies as st

from permuta import Basis, MeshBasis, MeshPatt, Perm

from .. import engine, gen, lib
from .. import oracle as ref
from ..engine import BAD, OK
from .c03 import json_patterns
from .c05 import twins

META = {
    "level": "exploration",
    "rule": (
        "generated pairs/triples drawn from Perm, MeshPatt, BivincularPatt, VincularPatt, CovincularPatt "
        "(length <= 3) including twins (one shading reached through different classes), derived objects (the same "
        "pattern reached through shade / symmetries / unrank / sub_mesh_pattern / repr on parents that were already "
        "compared, hashed and sorted), Basis and MeshBasis; "
        "exhaustive: all pairs of mesh-type representations of patterns of length <= 1 and all pairs of "
        "permutations of length <= 4 (5 thorough); hash lifetimes = generated histories of allocations "
        "(lists, other patterns, super() proxies, gc.collect) between two hash computations, then set/dict "
        "lookups through an equal twin. Oracle: the algebraic laws (equivalence, hash consistency, strict total "
        "order, operator consistency) and (length, lexicographic) order on plain tuples. Non-trivial: a pair of "
        "different Python classes with equal shading, or a triple mixing >= 2 classes; for lifetimes: at least "
        "one allocation burst between the two hash calls. Distinct = case content."
    ),
    "assumptions": [
        "the total order on mesh-type patterns is only required to be a strict total order consistent with ==; its concrete key is not asserted",
        "no ordering is asserted between a Perm and a mesh-type pattern, nor on bases (not stated by the property)",
        "symmetry of == and consistency of != are asserted within one family (Perm, mesh-type patterns, Basis, MeshBasis); across families (e.g. Perm(()) == Basis(()) is True one way only, both are plain empty tuples underneath) only 'equal implies equal hash' is asserted, which is all the property states there",
    ],
}


ROUTES = ("shade_existing", "shade_repeated", "reverse2", "inverse2", "complement2", "rotate4", "unrank", "sub_all", "eval_repr")


def _via(j):
    """A mesh pattern equal to j["base"] but obtained through an operation on a (possibly
    already compared / hashed / sorted) parent object instead of a constructor."""
    base = lib.to_lib(j["base"])
    M = MeshPatt(base.pattern, base.shading) if j.get("plain", True) else base
    if j.get("warm", True):
        other = MeshPatt(M.pattern, [])
        _ = (M < other, M <= other, M > other, M == other, hash(M), sorted([M, other, M]))
    route = j["route"]
    cells = sorted(M.shading)
    if route == "shade_existing":
        return M.shade(*cells[:1]) if cells else M.shade()
    if route == "shade_repeated":
        return M.shade(*(cells[:1] * 2 + cells[-1:])) if cells else M.shade()
    if route == "reverse2":
        return M.reverse().reverse()
    if route == "inverse2":
        return M.inverse().inverse()
    if route == "complement2":
        return M.complement().complement()
    if route == "rotate4":
        return M.rotate().rotate(2).rotate()
    if route == "unrank":
        return MeshPatt.unrank(M.pattern, M.rank())
    if route == "sub_all":
        return M.sub_mesh_pattern(range(len(M)))
    if route == "eval_repr":
        return eval(repr(M), {"MeshPatt": MeshPatt, "Perm": Perm})  # pylint: disable=eval-used
    raise engine.HarnessError(route)


def _obj(j):
    if isinstance(j, dict) and j.get("t") == "via":
        return _via(j)
    if isinstance(j, dict) and j.get("t") == "basis":
        return Basis(*[Perm(p) for p in j["perms"]])
    if isinstance(j, dict) and j.get("t") == "meshbasis":
        return MeshBasis(*[lib.to_lib(p) for p in j["patts"]])
    return lib.to_lib(j)


def _family(j):
    if isinstance(j, dict) and j.get("t") == "via":
        return "mesh"
    if isinstance(j, dict) and j.get("t") in ("basis", "meshbasis"):
        return j["t"]
    return "mesh" if lib.is_mesh_json(j) else "perm"


def _is_meshtype(j):
    return _family(j) == "mesh"


def _mesh_ref(j):
    if isinstance(j, dict) and j.get("t") == "via":
        return lib.as_mesh_ref(j["base"])  # every route is the identity on (pattern, shading)
    return lib.as_mesh_ref(j)


def _expected_equal(ja, jb):
    fa, fb = _family(ja), _family(jb)
    if fa != fb:
        return None
    if fa == "perm":
        return list(ja) == list(jb)
    if fa == "mesh":
        return _mesh_ref(ja) == _mesh_ref(jb)
    return None


def _cmp_ops(a, b):
    """All six comparisons; returns dict or raises."""
    return {"lt": a < b, "le": a <= b, "gt": a > b, "ge": a >= b, "eq": a == b, "ne": a != b}


def check_tuple(case):
    """case: list of 2 or 3 JSON objects"""
    try:
        objs = [_obj(j) for j in case]
    except TypeError as exc:  # building a MeshBasis sorts mesh-type patterns of mixed classes
        return BAD("construct_raises", {"exc": str(exc)})
    n = len(objs)
    # equality laws
    for i in range(n):
        a = objs[i]
        if not (a == a) or (a != a) or hash(a) != hash(_obj(case[i])) or not (a == _obj(case[i])):
            return BAD("reflexive_or_rebuild", {"i": i})
    for i, j in itertools.permutations(range(n), 2):
        a, b = objs[i], objs[j]
        eq = a == b
        same_family = _family(case[i]) == _family(case[j])
        # symmetry and != are asserted inside one family (perm, mesh-type, Basis, MeshBasis);
        # across families the property only states "equal objects have equal hashes"
        if same_family and eq != (b == a):
            return BAD("eq_not_symmetric", {"a": repr(a), "b": repr(b)})
        if same_family and eq == (a != b):
            return BAD("ne_inconsistent", {"a": repr(a), "b": repr(b)})
        want = _expected_equal(case[i], case[j])
        if want is not None and eq != want:
            return BAD("eq_wrong", {"a": repr(a), "b": repr(b), "want": want})
        if eq and hash(a) != hash(b):
            return BAD("equal_but_hash_differs", {"a": repr(a), "b": repr(b)})
        if eq and same_family:
            if b not in {a} or {a: 1}.get(b) != 1 or a not in {b: 2}:
                return BAD("lookup_fails", {"a": repr(a), "b": repr(b)})
    if n == 3:
        a, b, c = objs
        if a == b and b == c and not a == c:
            return BAD("eq_not_transitive", {})
    # ordering of mesh-type patterns
    mesh_idx = [i for i in range(n) if _is_meshtype(case[i])]
    for i, j in itertools.permutations(mesh_idx, 2):
        a, b = objs[i], objs[j]
        try:
            ops = _cmp_ops(a, b)
        except TypeError as exc:
            return BAD("order_raises", {"a": repr(a), "b": repr(b), "exc": str(exc)})
        if any(not isinstance(v, bool) for v in ops.values()):
            return BAD("order_not_bool", {"a": repr(a), "b": repr(b), "ops": {k: repr(v) for k, v in ops.items()}})
        if [ops["lt"], ops["eq"], ops["gt"]].count(True) != 1:
            return BAD("order_not_trichotomous", {"a": repr(a), "b": repr(b), "ops": ops})
        if ops["le"] != (ops["lt"] or ops["eq"]) or ops["ge"] != (ops["gt"] or ops["eq"]):
            return BAD("order_le_ge_inconsistent", {"a": repr(a), "b": repr(b), "ops": ops})
        rev = _cmp_ops(b, a)
        if ops["lt"] != rev["gt"] or ops["gt"] != rev["lt"] or ops["le"] != rev["ge"]:
            return BAD("order_not_mirrored", {"a": repr(a), "b": repr(b)})
    if len(mesh_idx) == 3:
        for i, j, k in itertools.permutations(mesh_idx, 3):
            if objs[i] < objs[j] and objs[j] < objs[k] and not objs[i] < objs[k]:
                return BAD("order_not_transitive", {"a": repr(objs[i]), "b": repr(objs[j]), "c": repr(objs[k])})
    if len(mesh_idx) >= 2:
        ms = [objs[i] for i in mesh_idx]
        try:
            outs = [[(tuple(x.pattern), tuple(sorted(x.shading))) for x in sorted(perm)] for perm in itertools.permutations(ms)]
        except TypeError as exc:
            return BAD("sorted_raises", {"exc": str(exc)})
        if any(o != outs[0] for o in outs):
            return BAD("sorted_order_dependent", {"outs": outs[:2]})
    # ordering of permutations: (length, lexicographic)
    perm_idx = [i for i in range(n) if _family(case[i]) == "perm"]
    for i, j in itertools.permutations(perm_idx, 2):
        a, b = objs[i], objs[j]
        ka, kb = ref.perm_key(case[i]), ref.perm_key(case[j])
        want = {"lt": ka < kb, "le": ka <= kb, "gt": ka > kb, "ge": ka >= kb, "eq": ka == kb, "ne": ka != kb}
        got = _cmp_ops(a, b)
        if got != want:
            return BAD("perm_order", {"a": list(a), "b": list(b), "got": got, "want": want})
    if len(perm_idx) >= 2:
        ps = [objs[i] for i in perm_idx]
        if [tuple(x) for x in sorted(ps)] != sorted((tuple(x) for x in ps), key=ref.perm_key):
            return BAD("perm_sorted", {})
        if tuple(min(ps)) != min((tuple(x) for x in ps), key=ref.perm_key) or tuple(max(ps)) != max((tuple(x) for x in ps), key=ref.perm_key):
            return BAD("perm_min_max", {})
    classes = {type(o).__name__ for o in objs}
    twin = any(
        type(objs[i]) is not type(objs[j]) and objs[i] == objs[j] for i, j in itertools.combinations(range(n), 2)
    )
    return OK(twin or (n == 3 and len(classes) >= 2), "twin" if twin else f"classes{len(classes)}")


def check_lifetime(case):
    """case: {"objs": [json...], "ops": [[op, ...], ...]}"""
    try:
        objs = [_obj(j) for j in case["objs"]]
    except TypeError as exc:
        return BAD("construct_raises", {"exc": str(exc)})
    first = [hash(o) for o in objs]
    keep = []
    bursts = 0
    for op in case["ops"]:
        kind = op[0]
        if kind == "alloc":
            keep.append([[0] * (i % 7) for i in range(op[1])])
            bursts += 1
        elif kind == "free":
            keep.clear()
        elif kind == "proxies":
            # the pre-fix defect hashed a temporary super() proxy: provoke address reuse
            keep.append([super(MeshPatt, o) if isinstance(o, MeshPatt) else object() for o in objs for _ in range(op[1])])
            bursts += 1
        elif kind == "patterns":
            keep.append([MeshPatt(Perm((0, 1)), [(i % 3, 0)]) for i in range(op[1])])
            bursts += 1
        elif kind == "gc":
            gc.collect()
        elif kind == "rehash":
            for i, o in enumerate(objs):
                if hash(o) != first[i]:
                    return BAD("hash_changed", {"obj": repr(o), "after_ops": case["ops"][: case["ops"].index(op) + 1]})
        elif kind == "lookup":
            for i, o in enumerate(objs):
                twin = _obj(case["objs"][i])
                if twin not in {o} or {o: i}.get(twin) != i or hash(twin) != first[i]:
                    return BAD("twin_lookup_fails", {"obj": repr(o)})
    for i, o in enumerate(objs):
        if hash(o) != first[i]:
            return BAD("hash_changed", {"obj": repr(o)})
    # equal objects of different class must hash alike at any time
    for i, j in itertools.combinations(range(len(objs)), 2):
        if objs[i] == objs[j] and hash(objs[i]) != hash(objs[j]):
            return BAD("equal_but_hash_differs", {"a": repr(objs[i]), "b": repr(objs[j])})
    return OK(bursts >= 1, "lifetime")


CHECKS = {"tuple": check_tuple, "lifetime": check_lifetime}


# ------------------------------------------------------------------ generators
@st.composite
def any_object(draw):
    kind = draw(st.sampled_from(["patt", "patt", "patt", "basis", "meshbasis"]))
    if kind == "patt":
        return draw(json_patterns(3))
    if kind == "basis":
        return {"t": "basis", "perms": [list(p) for p in draw(st.lists(gen.perms(1, 4), min_size=0, max_size=3))]}
    return {"t": "meshbasis", "patts": draw(st.lists(json_patterns(2), min_size=0, max_size=3))}


@st.composite
def tuple_cases(draw):
    mode = draw(st.sampled_from(["any", "twins", "mesh_only", "perms", "same_pattern", "derived", "derived", "perm_neighbours"]))
    if mode == "perm_neighbours":
        # permutations of one length (5-12) that agree on a long prefix and differ only near the end,
        # plain and as (unshaded / one-cell) mesh patterns: the lexicographic order is decided late
        n = draw(st.integers(5, 12))
        base = list(draw(gen.perm_of(n)))
        out = [base]
        for _ in range(2):
            v = list(base)
            kind = draw(st.sampled_from(["swap_last_two", "swap_near_end", "rotate_last_three"]))
            if kind == "swap_last_two":
                v[-1], v[-2] = v[-2], v[-1]
            elif kind == "swap_near_end":
                i = draw(st.integers(n - 4, n - 2))
                v[i], v[-1] = v[-1], v[i]
            else:
                v[-3:] = [v[-1], v[-3], v[-2]]
            out.append(v)
        if draw(st.integers(0, 2)) == 0:
            cell = [draw(st.integers(0, n)), draw(st.integers(0, n))]
            out = [[q, [cell]] for q in out]
        return out
    if mode == "derived":
        # the same mesh pattern reached through operations on (warmed) parents, next to its
        # plain twin and to a neighbour on the same underlying pattern
        base = draw(gen.mesh_patterns(0, 3))
        out = [{"t": "via", "base": base, "route": draw(st.sampled_from(ROUTES)), "warm": draw(st.booleans())}, base]
        if draw(st.booleans()):
            out.append([base[0], draw(gen.shadings(len(base[0])))])
        else:
            out.append({"t": "via", "base": base, "route": draw(st.sampled_from(ROUTES)), "warm": True})
        return out
    n = draw(st.integers(2, 3))
    if mode == "any":
        return [draw(any_object()) for _ in range(n)]
    if mode == "twins":
        tw = draw(twins())
        extra = [draw(json_patterns(3)) for _ in range(max(0, n - len(tw)))]
        return (tw + extra)[:3]
    if mode == "perms":
        return [list(draw(gen.perms(0, 5))) for _ in range(n)]
    if mode == "same_pattern":
        p = list(draw(gen.perms(0, 2)))
        out = []
        for _ in range(n):
            which = draw(st.sampled_from(["mesh", "biv", "vin", "cov"]))
            k = len(p)
            if which == "mesh":
                out.append([p, draw(gen.shadings(k))])
            else:
                idx = sorted(draw(st.sets(st.integers(0, k), max_size=2)))
                val = sorted(draw(st.sets(st.integers(0, k), max_size=2)))
                out.append({"t": which, "p": p, **({"idx": idx} if which != "cov" else {}), **({"val": val} if which != "vin" else {})})
        return out
    return [draw(json_patterns(3).filter(lib.is_mesh_json)) for _ in range(n)]


@st.composite
def lifetime_cases(draw):
    objs = draw(st.lists(any_object(), min_size=1, max_size=3))
    if draw(st.booleans()):
        objs = objs + draw(twins())[:2]
    ops = draw(
        st.lists(
            st.one_of(
                st.tuples(st.just("alloc"), st.integers(1, 400)),
                st.tuples(st.just("proxies"), st.integers(1, 50)),
                st.tuples(st.just("patterns"), st.integers(1, 100)),
                st.tuples(st.just("free")),
                st.tuples(st.just("gc")),
                st.tuples(st.just("rehash")),
                st.tuples(st.just("lookup")),
            ),
            min_size=2,
            max_size=10,
        )
    )
    return {"objs": objs, "ops": [list(o) for o in ops]}


def _mesh_reps(k):
    """every mesh-type representation of every pattern of length k"""
    out = []
    cells = [(x, y) for x in range(k + 1) for y in range(k + 1)]
    for p in ref.perms(k):
        for mask in range(1 << len(cells)):
            out.append([list(p), [list(c) for j, c in enumerate(cells) if mask >> j & 1]])
        subsets = [[i for i in range(k + 1) if m >> i & 1] for m in range(1 << (k + 1))]
        for idx in subsets:
            out.append({"t": "vin", "p": list(p), "idx": idx})
            out.append({"t": "cov", "p": list(p), "val": idx})
            for val in subsets:
                out.append({"t": "biv", "p": list(p), "idx": idx, "val": val})
    return out


def shard_exhaustive(acc, shard, nshards, max_perm):
    reps = _mesh_reps(0) + _mesh_reps(1)
    i = 0
    for a, b in itertools.product(reps, repeat=2):
        if i % nshards == shard:
            acc.record("tuple", check_tuple, [a, b])
        i += 1
    ps = [list(p) for p in ref.perms_upto(max_perm)]
    for a, b in itertools.product(ps, repeat=2):
        if i % nshards == shard:
            acc.record("tuple", check_tuple, [a, b])
        i += 1


def shard_generated(acc, shard, nshards, n_tuple, n_life):
    engine.hyp_run(acc, "tuple", check_tuple, tuple_cases(), n_tuple, shard)
    engine.hyp_run(acc, "lifetime", check_lifetime, lifetime_cases(), n_life, shard)


# coverage-guided variants of the structured generators (thorough tier, pv/fuzz/target.py hyp:<name>)
FUZZ = {"tuple": ("tuple", tuple_cases)}


def run(acc, tier):
    if tier == "quick":
        engine.pmap(acc, shard_exhaustive, extra=(4,))
        engine.pmap(acc, shard_generated, extra=(400, 60))
    else:
        engine.pmap(acc, shard_exhaustive, extra=(5,))
        engine.pmap(acc, shard_generated, extra=(25000, 3000))
        engine.fuzz(acc, "hyp:tuple", CHECKS, 20000, max_len=4096)
